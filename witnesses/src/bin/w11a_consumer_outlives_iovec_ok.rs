fn count() -> usize {
    let mut iov: owning_iovec::OwningIovec<'static> = owning_iovec::OwningIovec::new();
    iov.push_copy(b"abc");
    owning_iovec::ConsumingIovec::from(&mut iov).total_size()
}
fn main() {
    println!("{}", count());
}
