fn main() {
    let mut dec = hcobs::Decoder::new();
    dec.decode_copy(&[0u8]).unwrap();
    let out = dec.finish();
    dec.decode_copy(&[0u8]).unwrap(); //~ ERROR borrow of moved value
    println!("{}", out.is_ok());
}
