fn main() {
    let mut iov = owning_iovec::OwningIovec::new();
    let _c = iov.consumer();
    iov.push(b"late");
}
