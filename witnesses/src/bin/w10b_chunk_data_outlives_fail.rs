fn main() {
    let mut arena = owning_iovec::ByteArena::new();
    let mut chunker = hcobs::StreamChunker::default();
    let mut src: &[u8] = b"abcdef";
    let kept: &[u8];
    match chunker.pump(&mut arena, &mut src, 4).unwrap() {
        hcobs::Chunk::Data((_, s)) => { kept = s.slice(); } //~ ERROR does not live long enough
        _ => { kept = &[]; }
    }
    println!("{}", kept.len());
}
