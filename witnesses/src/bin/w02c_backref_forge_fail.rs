fn main() {
    let mut iov = owning_iovec::OwningIovec::new();
    let _ = iov.register_patch(b"xx");
    let forged = owning_iovec::Backref(None); //~ ERROR private field
    iov.backfill_or_panic(forged, b"");
}
