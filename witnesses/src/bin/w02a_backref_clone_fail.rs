fn main() {
    let mut iov = owning_iovec::OwningIovec::new();
    let b = iov.register_patch(b"xx");
    let b2 = b.clone(); //~ ERROR
    iov.backfill_or_panic(b, b"yy");
    iov.backfill_or_panic(b2, b"zz");
}
