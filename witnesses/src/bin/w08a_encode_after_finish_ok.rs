fn main() {
    let mut enc = hcobs::Encoder::new();
    enc.encode_copy(b"abc");
    enc.encode_copy(b"def");
    let out = enc.finish();
    println!("{}", out.total_size());
}
