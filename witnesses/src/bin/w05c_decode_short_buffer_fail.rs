fn main() {
    let mut dec = hcobs::Decoder::new();
    {
        let buf = vec![1u8, 7];
        dec.decode(&buf).unwrap(); //~ ERROR does not live long enough
    }
    println!("{}", dec.finish().unwrap().total_size());
}
