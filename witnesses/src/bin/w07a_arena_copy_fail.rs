fn main() {
    let mut arena = owning_iovec::ByteArena::new();
    let (s, _a) = unsafe { arena.copy(b"abc", None) }; //~ ERROR private
    println!("{}", s.len());
}
