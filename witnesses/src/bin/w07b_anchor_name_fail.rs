fn main() {
    let a: owning_iovec::byte_arena::Anchor = Default::default(); //~ ERROR private module
    let _ = a;
}
