fn main() {
    let a: owning_iovec::AnchoredSlice = Default::default();
    let (_io, s, _anchor) = a.components(); //~ ERROR requires unsafe
    println!("{}", s.len());
}
