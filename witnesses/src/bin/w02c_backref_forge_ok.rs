fn main() {
    let mut iov = owning_iovec::OwningIovec::new();
    let _ = iov.register_patch(b"xx");
    let empty: owning_iovec::Backref = Default::default();
    iov.backfill_or_panic(empty, b"");
}
