fn main() {
    let mut iov = owning_iovec::OwningIovec::new();
    iov.push_copy(b"abc");
    {
        let mut it = (&iov).into_iter();
        println!("{:?}", it.next().map(|s| s.len()));
    }
    let taken = iov.take();
    println!("{}", taken.len());
}
