fn main() {
    let mut dec = hcobs::Decoder::new();
    dec.decode_copy(&[0u8]).unwrap();
    dec.decode_copy(&[0u8]).unwrap();
    let out = dec.finish();
    println!("{}", out.is_ok());
}
