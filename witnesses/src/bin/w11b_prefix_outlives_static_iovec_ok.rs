fn count() -> usize {
    let mut iov: owning_iovec::OwningIovec<'static> = owning_iovec::OwningIovec::new();
    iov.push_copy(b"abc");
    iov.stable_prefix()[0].len()
}
fn main() {
    println!("{}", count());
}
