fn main() {
    let t = time::PrimitiveDateTime::MIN;
    let vp = raffle::VouchingParameters::parse_or_die("VOUCH-773ec2a0e62c20cd-f9e079b78e895091-fc1da7b1b77c57cb-594b9cce3091464a");
    let v = vouched_time::VouchedTime { local_time: t, base_time_ms: 0, voucher: vp.vouch(0) }; //~ ERROR private
    println!("{:?}", v);
}
