fn main() {
    let mut iov = owning_iovec::OwningIovec::new();
    let mut c = iov.consumer();
    c.push(b"late"); //~ ERROR
}
