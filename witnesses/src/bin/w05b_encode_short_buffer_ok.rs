fn main() {
    let mut enc = hcobs::Encoder::new();
    {
        let buf = vec![1u8; 1000];
        enc.encode_copy(&buf);
    }
    println!("{}", enc.finish().total_size());
}
