fn count() -> usize {
    let mut iov: owning_iovec::OwningIovec<'static> = owning_iovec::OwningIovec::new();
    iov.push_copy(b"abc");
    iov.front().unwrap().len()
}
fn main() {
    println!("{}", count());
}
