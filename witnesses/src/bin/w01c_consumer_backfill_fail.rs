fn main() {
    let mut iov = owning_iovec::OwningIovec::new();
    let b = iov.register_patch(b"xx");
    let mut c = iov.consumer();
    c.backfill_or_panic(b, b"yy"); //~ ERROR
}
