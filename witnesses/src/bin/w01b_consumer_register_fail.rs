fn main() {
    let mut iov = owning_iovec::OwningIovec::new();
    let mut c = iov.consumer();
    let _b = c.register_patch(b"xx"); //~ ERROR
}
