fn main() {
    let mut iov = owning_iovec::OwningIovec::new();
    iov.push_copy(b"abc");
    let view = iov.stable_prefix();
    iov.push_copy(b"def"); //~ ERROR cannot borrow as mutable
    println!("{}", view.len());
}
