fn main() {
    let mut iov = owning_iovec::OwningIovec::new();
    {
        let buf = vec![1u8; 1000];
        iov.push_borrowed(&buf); //~ ERROR does not live long enough
    }
    println!("{}", iov.total_size());
}
