fn bytes() -> usize {
    let mut arena = owning_iovec::ByteArena::new();
    let a = arena.read_n(&b"abc"[..], 3, std::num::NonZeroUsize::MIN).unwrap();
    a.slice().len()
}
fn main() {
    println!("{}", bytes());
}
