fn main() {
    let mut iov = owning_iovec::OwningIovec::new();
    iov.push_copy(b"abc");
    let view = iov.stable_prefix();
    println!("{}", view.len());
    iov.push_copy(b"def");
}
