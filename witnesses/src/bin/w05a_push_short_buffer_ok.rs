fn main() {
    let buf = vec![1u8; 1000];
    let mut iov = owning_iovec::OwningIovec::new();
    {
        iov.push_borrowed(&buf);
    }
    println!("{}", iov.total_size());
}
