fn main() {
    let mut dec = hcobs::Decoder::new();
    {
        let buf = vec![1u8, 7];
        dec.decode_copy(&buf).unwrap();
    }
    println!("{}", dec.finish().unwrap().total_size());
}
