fn leak() -> owning_iovec::ConsumingIovec<'static> {
    let mut iov: owning_iovec::OwningIovec<'static> = owning_iovec::OwningIovec::new();
    iov.push_copy(b"abc");
    owning_iovec::ConsumingIovec::from(&mut iov) //~ ERROR returns a value referencing local data
}
fn main() {
    println!("{}", leak().total_size());
}
