fn main() {
    let mut iov = owning_iovec::OwningIovec::new();
    let _b = iov.register_patch(b"xx");
    let c = iov.consumer();
    let s = owning_iovec::StableIovec(c); //~ ERROR private field
    let _ = s.iovs();
}
