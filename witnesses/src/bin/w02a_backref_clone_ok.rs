fn main() {
    let mut iov = owning_iovec::OwningIovec::new();
    let b = iov.register_patch(b"xx");
    iov.backfill_or_panic(b, b"yy");
}
