fn main() {
    let a: owning_iovec::AnchoredSlice = Default::default();
    let (_io, s, _anchor) = unsafe { a.components() };
    println!("{}", s.len());
}
