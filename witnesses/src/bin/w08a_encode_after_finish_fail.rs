fn main() {
    let mut enc = hcobs::Encoder::new();
    enc.encode_copy(b"abc");
    let out = enc.finish();
    enc.encode_copy(b"def"); //~ ERROR borrow of moved value
    println!("{}", out.total_size());
}
