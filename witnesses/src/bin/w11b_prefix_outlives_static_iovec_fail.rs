fn leak() -> std::io::IoSlice<'static> {
    let mut iov: owning_iovec::OwningIovec<'static> = owning_iovec::OwningIovec::new();
    iov.push_copy(b"abc");
    iov.stable_prefix()[0] //~ ERROR returns a value referencing local data
}
fn main() {
    println!("{}", leak().len());
}
