fn main() {
    let mut arena = owning_iovec::ByteArena::new();
    let mut chunker = hcobs::StreamChunker::default();
    let mut src: &[u8] = b"abcdef";
    let kept: usize;
    match chunker.pump(&mut arena, &mut src, 4).unwrap() {
        hcobs::Chunk::Data((_, s)) => { kept = s.slice().len(); }
        _ => { kept = 0; }
    }
    println!("{}", kept);
}
