fn main() {
    let mut arena = owning_iovec::ByteArena::new();
    arena.ensure_capacity(3);
    println!("{}", arena.remaining());
}
