fn bytes() -> &'static [u8] {
    let mut arena = owning_iovec::ByteArena::new();
    let a = arena.read_n(&b"abc"[..], 3, std::num::NonZeroUsize::MIN).unwrap();
    a.slice() //~ ERROR returns a value referencing local data
}
fn main() {
    println!("{}", bytes().len());
}
