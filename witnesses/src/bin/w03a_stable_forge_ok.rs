fn main() {
    let mut iov = owning_iovec::OwningIovec::new();
    let _b = iov.register_patch(b"xx");
    match iov.stable_consumer() {
        Ok(s) => { let _ = s.iovs(); }
        Err(_c) => {}
    }
}
