fn main() {
    let mut iov = owning_iovec::OwningIovec::new();
    iov.push_copy(b"abc");
    let mut it = (&iov).into_iter();
    let taken = iov.take(); //~ ERROR
    println!("{:?} {}", it.next().map(|s| s.len()), taken.len());
}
