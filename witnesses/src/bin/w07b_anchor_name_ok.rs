fn main() {
    let a: owning_iovec::AnchoredSlice = Default::default();
    let _ = a;
}
