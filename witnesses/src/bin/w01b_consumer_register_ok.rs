fn main() {
    let mut iov = owning_iovec::OwningIovec::new();
    let _c = iov.consumer();
    let _b = iov.register_patch(b"xx");
}
