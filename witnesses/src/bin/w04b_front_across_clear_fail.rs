fn main() {
    let mut iov = owning_iovec::OwningIovec::new();
    iov.push_copy(b"abc");
    let first = iov.front().unwrap();
    iov.clear(); //~ ERROR
    println!("{}", first.len());
}
