#!/usr/bin/env python3
"""tools/mktwins.py <twins.json from tools/eval_diffs.py on seeded/*/benign.diff> : writes seeded/TWINS.md -- for every round-5
(camouflage) seed, what the checks report on the breaking pull request (meta.json, detected_by) and on the same pull
request without the breaking line."""
import glob, json, os, re, sys
V = '/verif'
tw = {re.search(r'(C\d\d-t\d)', k).group(1): v for k, v in json.load(open(sys.argv[1])).items()}
rows = []
for d in sorted(glob.glob(V + '/seeded/*-t[0-9]')):
    n = os.path.basename(d)
    m = json.load(open(d + '/meta.json'))
    det = m.get('detected_by') if isinstance(m.get('detected_by'), dict) else {}
    t = tw.get(n) if isinstance(tw.get(n), dict) else {}
    only = {p: [x for x in v if x not in t.get(p, [])] for p, v in det.items()}
    only = {p: v for p, v in only.items() if v}
    rows.append((n, m.get('property'), t, only))
silent = sum(1 for r in rows if not r[2])
distinct = sum(1 for r in rows if r[3])
with open(V + '/seeded/TWINS.md', 'w') as fh:
    fh.write('# Round-5 seeds and their benign twins (quick tier)\n\n%d pairs; twin silent: %d; breaking version reported with at least one rule instance its twin does not have: %d\n\n'
             '| seed | benign twin alarms | reported for the breaking version only |\n|---|---|---|\n' % (len(rows), silent, distinct))
    for n, p, t, only in rows:
        fh.write('| %s | %s | %s |\n' % (n, '; '.join('%s: %s' % (k, ', '.join(v[:2])) for k, v in t.items()) or 'none',
                                      '; '.join('%s: %s' % (k, ', '.join(v[:2])) for k, v in only.items()) or '-'))
print(len(rows), 'pairs; twin silent', silent, '; distinguished', distinct)
