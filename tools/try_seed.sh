#!/bin/sh
# tools/try_seed.sh <patch.diff> [PROP...] : apply a seeded change to /repo, run the (quick) checks, undo it.
patch=$1; shift
cd /verif
props="$@"
[ -z "$props" ] && props=$(python3 -c "import json;print(' '.join(c['property_id'] for c in json.load(open('MANIFEST.json'))['checks']))")
git -C /repo apply "$patch" || { echo "patch does not apply"; exit 3; }
trap 'git -C /repo checkout -- . ; git -C /repo clean -fdq -e target' EXIT
for p in $props; do
  out=$(./check $p --tier quick --no-evidence 2>&1); code=$?
  n=$(echo "$out" | grep -c '^VIOLATION')
  echo "== $p exit=$code violations=$n"
  if [ $code -ne 0 ] && [ $code -ne 1 ]; then echo "$out" | tail -12; fi
  echo "$out" | grep -B1 '^VIOLATION' | grep -v '^VIOLATION' | grep -v '^--' | cut -c1-330 | head -4
done
