#!/bin/sh
# run every claimed check at a tier (default quick) and summarise
tier=${1:-quick}
cd "$(dirname "$0")/.."
for p in $(python3 -c "import json;print(' '.join(c['property_id'] for c in json.load(open('MANIFEST.json'))['checks']))"); do
  out=$(./check $p --tier $tier 2>&1); code=$?
  echo "$p exit=$code $(echo "$out" | grep -c VIOLATION) violation(s) $(echo "$out" | head -1 | sed 's/.*: //')"
  if [ $code -ne 0 ]; then echo "$out" | grep -B1 VIOLATION | head -6; fi
done
