#!/usr/bin/env python3
"""tools/eval_mutants.py <dir with s*.diff> <out.json> [PROP ...] : run the (quick) checks on every surviving mutant of a
mutation sweep, each applied to a scratch worktree of /repo; record which checks report it."""
import glob, json, os, re, subprocess, sys
V = '/verif'
src, out = sys.argv[1], sys.argv[2]
props = sys.argv[3:] or [c['property_id'] for c in json.load(open(V + '/MANIFEST.json'))['checks']]
WT = '/tmp/eval-mut-wt-' + os.path.basename(src.rstrip('/'))
subprocess.run(['git', '-C', '/repo', 'worktree', 'remove', '--force', WT], capture_output=True)
subprocess.run(['git', '-C', '/repo', 'worktree', 'add', '--detach', WT, 'HEAD'], check=True, capture_output=True)
res = {}
try:
    for d in sorted(glob.glob(src + '/s*.diff'), key=lambda p: int(re.findall(r's(\d+)\.diff', p)[0])):
        k = os.path.basename(d)[:-5]
        if subprocess.run(['git', '-C', WT, 'apply', d]).returncode != 0:
            res[k] = 'does not apply'
            continue
        det = {}
        try:
            def one(p):
                r = subprocess.run(['./check', p, '--tier', 'quick', '--no-evidence', '--repo', WT], cwd=V, capture_output=True, text=True)
                rules = sorted(set(re.findall(r'rule (R[0-9.]+) \[(\w+)\] instance "([^"]+)"', r.stdout)))
                return p, r.returncode, rules
            import concurrent.futures as cf
            first = one(props[0])
            with cf.ThreadPoolExecutor(6) as ex:
                rest = list(ex.map(one, props[1:]))
            for p, rc, rules in [first] + rest:
                if rc != 0:
                    det[p] = ['%s %s (%s)' % (a, c, b) for a, b, c in rules][:4] or ['exit %d' % rc]
        finally:
            subprocess.run('git -C %s checkout -- . && git -C %s clean -fdq' % (WT, WT), shell=True)
        res[k] = det
        print(k, '->', {a: len(b) for a, b in det.items()} or 'UNDETECTED', flush=True)
        json.dump(res, open(out, 'w'), indent=1)
finally:
    subprocess.run(['git', '-C', '/repo', 'worktree', 'remove', '--force', WT], capture_output=True)
