#!/usr/bin/env python3
"""tools/mkreference.py : (re)generate tables/reference_fns.json from the reference tree (/repo as committed).

Run it only on a clean /repo whose checks pass: it freezes the names and body fingerprints of every workspace
function, which engine/woodlint/normalize.py uses to see through renames and helper extraction."""
import json, os, subprocess, sys
sys.path.insert(0, os.path.dirname(os.path.dirname(os.path.abspath(__file__))))
from engine.woodlint import extract, normalize
from engine.woodlint.db import Program

dirty = subprocess.run(['git', '-C', '/repo', 'status', '--porcelain', '--untracked-files=no'], capture_output=True, text=True).stdout.strip()
if dirty:
    sys.exit('refusing: /repo has uncommitted changes')
head = subprocess.run(['git', '-C', '/repo', 'rev-parse', 'HEAD'], capture_output=True, text=True).stdout.strip()
fns = {}
dups = set()
for profile in extract.PROFILES:
    d, th, info = extract.extract('/repo', profile)
    prog = Program(d, normalise=False, profile=profile)
    for f in prog.fns.values():
        if len(prog.by_name[f.name]) > 1:
            dups.add(f.name)
        e = fns.setdefault(f.name, {'crate': f.crate, 'exported': bool(f.d.get('exported')), 'hash': {}})
        e['hash'][profile] = normalize.fingerprint(f)
        e['loops'] = bool(e.get('loops')) or not f.is_acyclic()
        e['callees'] = sorted(set(e.get('callees', [])) | {t.get('resp') or t.get('calleep') for b in f.blocks for t in [b['term']] if t['k'] == 'call' and t.get('local') and (t.get('resp') or t.get('calleep'))})
for n in dups:
    fns[n]['hash'] = {}
adts = {}
for a in prog.adts.values():
    adts[a['name']] = {'crate': a['crate'], 'exported': bool(a.get('exported')), 'shape': normalize._adt_shape(a)}
out = {'adts': {k: adts[k] for k in sorted(adts)}, 'reference_commit': head, 'skeleton_version': normalize.skeleton_version(), 'count': len(fns), 'fns': {k: fns[k] for k in sorted(fns)}}
with open(normalize.TABLE, 'w') as fh:
    json.dump(out, fh, indent=0, sort_keys=True)
    fh.write('\n')
print('wrote %s: %d functions (%d ambiguous names without fingerprint)' % (normalize.TABLE, len(fns), len(dups)))
