#!/usr/bin/env python3
"""Create a positive-control patch: tools/mkcontrol.py PROP NAME RULE EXPECT WHAT FILE  (old/new text read from stdin, separated by a line '=====')
Several edits: repeat blocks separated by a line '#####' each starting with the file path on its first line."""
import os, subprocess, sys, tempfile, shutil
prop, name, rule, expect, what = sys.argv[1:6]
blocks = sys.stdin.read().split('\n#####\n')
d = tempfile.mkdtemp(prefix='mkcontrol-')
try:
    a = os.path.join(d, 'a'); b = os.path.join(d, 'b')
    os.makedirs(a); os.makedirs(b)
    for blk in blocks:
        path, rest = blk.split('\n', 1)
        old, new = rest.split('\n=====\n')
        new = new.rstrip('\n') if not new.endswith('\n\n') else new
        src = open(os.path.join('/repo', path)).read() if not os.path.exists(os.path.join(b, path)) else open(os.path.join(b, path)).read()
        if src.count(old.rstrip('\n')) != 1:
            sys.exit('old text occurs %d times in %s' % (src.count(old.rstrip('\n')), path))
        for root in (a, b):
            os.makedirs(os.path.dirname(os.path.join(root, path)), exist_ok=True)
        if not os.path.exists(os.path.join(a, path)):
            open(os.path.join(a, path), 'w').write(open(os.path.join('/repo', path)).read())
        open(os.path.join(b, path), 'w').write(src.replace(old.rstrip('\n'), new.rstrip('\n')))
    r = subprocess.run(['diff', '-ruN', 'a', 'b'], cwd=d, capture_output=True, text=True)
    out = os.path.join('/verif/controls', prop, name + '.patch')
    os.makedirs(os.path.dirname(out), exist_ok=True)
    with open(out, 'w') as fh:
        fh.write('# rule: %s\n# expect: %s\n# what: %s\n' % (rule, expect, what))
        fh.write(r.stdout)
    print('wrote', out)
finally:
    shutil.rmtree(d)
