#!/usr/bin/env python3
"""Emit the as-built rule catalogue (markdown) from the rule modules, controls and witnesses."""
import glob, importlib, json, os, sys
V = os.path.dirname(os.path.dirname(os.path.abspath(__file__)))
sys.path.insert(0, V)
sys.dont_write_bytecode = True
props = [json.loads(l)['id'] for l in open(os.path.join(V, 'properties.jsonl'))]
exp = {k: v for k, v in json.load(open(os.path.join(V, 'witnesses', 'expect.json'))).items() if not k.startswith('_')}
print('| property | rule | decides (first line of the rule) | floor | positive controls |')
print('|---|---|---|---|---|')
for p in props:
    try:
        m = importlib.import_module('rules.' + p.lower())
    except ModuleNotFoundError:
        print('| %s | — | not applicable | | |' % p)
        continue
    ctrl = {}
    for c in glob.glob(os.path.join(V, 'controls', p, '*.patch')):
        rule = ''
        for line in open(c):
            if line.startswith('# rule:'):
                rule = line.split(':', 1)[1].strip()
                break
        ctrl.setdefault(rule, []).append(os.path.basename(c)[:-6])
    for rid, f in m.RULES:
        doc = (f.__doc__ or '').strip().splitlines()[0]
        print('| %s | %s | %s | %s | %s |' % (p, rid, doc, getattr(m, 'FLOORS', {}).get(rid, 1), ', '.join(sorted(ctrl.get(rid, []))) or '—'))
    ws = sorted(k for k, v in exp.items() if p in v['serves'])
    if ws:
        print('| %s | W | compile-fail witnesses (thorough tier): %s | %d | (rustc) |' % (p, ', '.join(ws), len(ws)))
