#!/usr/bin/env python3
"""tools/eval_diffs.py <out.json> <diff>... : apply each diff to a scratch worktree of /repo and run every claimed check
(quick tier); record which checks report it and through which rule instances."""
import json, os, re, subprocess, sys
import concurrent.futures as cf
V = '/verif'
out, diffs = sys.argv[1], sys.argv[2:]
props = [c['property_id'] for c in json.load(open(V + '/MANIFEST.json'))['checks']]
WT = os.environ.get('EVAL_WT', '/tmp/eval-diffs-wt')
subprocess.run(['git', '-C', '/repo', 'worktree', 'remove', '--force', WT], capture_output=True)
subprocess.run(['git', '-C', '/repo', 'worktree', 'add', '--detach', WT, 'HEAD'], check=True, capture_output=True)
res = {}
def one(p):
    r = subprocess.run(['./check', p, '--tier', 'quick', '--no-evidence', '--repo', WT], cwd=V, capture_output=True, text=True)
    rules = sorted(set(re.findall(r'rule (R[0-9.]+) \[(\w+)\] instance "([^"]+)"', r.stdout)))
    return p, r.returncode, rules
try:
    for d in diffs:
        k = d
        if subprocess.run(['git', '-C', WT, 'apply', d]).returncode != 0:
            res[k] = 'does not apply'
            continue
        det = {}
        try:
            first = one(props[0])
            with cf.ThreadPoolExecutor(6) as ex:
                rest = list(ex.map(one, props[1:]))
            for p, rc, rules in [first] + rest:
                if rc != 0:
                    det[p] = ['%s %s (%s)' % (a, c, b) for a, b, c in rules][:5] or ['exit %d' % rc]
        finally:
            subprocess.run('git -C %s checkout -- . && git -C %s clean -fdq' % (WT, WT), shell=True)
        res[k] = det
        print(k, '->', {a: b[:2] for a, b in det.items()} or 'SILENT', flush=True)
        json.dump(res, open(out, 'w'), indent=1)
finally:
    subprocess.run(['git', '-C', '/repo', 'worktree', 'remove', '--force', WT], capture_output=True)
