#!/bin/sh
# tools/eval_mutants_all.sh : re-evaluate the archived mutation-sweep survivors (mutation/<crate>/survivors.tar.gz) with the
# checks of the properties anchored in that crate; results in mutation/<crate>/results.json
cd /verif
run() { c=$1; shift; d=$(mktemp -d /tmp/mut-$c-XXXX); tar -C $d -xzf mutation/$c/survivors.tar.gz; python3 tools/eval_mutants.py $d mutation/$c/results.json "$@" > /tmp/mutres-$c.log 2>&1; rm -rf $d; }
run rough_tlv C11 C12 &
run sliding_deque C15 C16 C17 &
run vouched_time C13 C14 C18 C19 &
wait
run owning_iovec C03 C04 C05 C17 C20 &
run hcobs C02 C06 C07 C08 C09 C10 C17 &
wait
