#!/usr/bin/env python3
"""Apply every behaviour-preserving refactoring kept in /verif/benign/*.diff to a scratch worktree of /repo in
turn and run every claimed check (quick tier) on it: all of them must stay silent.  Writes benign/RESULTS.md."""
import json, os, re, subprocess, sys, glob
V = '/verif'
claimed = [c['property_id'] for c in json.load(open(V + '/MANIFEST.json'))['checks']]
only = [a for a in sys.argv[1:] if not a.startswith('--')]
WT = os.environ.get('EVAL_WT', '/tmp/eval-benign-wt')
subprocess.run(['git', '-C', '/repo', 'worktree', 'remove', '--force', WT], capture_output=True)
subprocess.run(['git', '-C', '/repo', 'worktree', 'add', '--detach', WT, 'HEAD'], check=True, capture_output=True)
rows = []
bad = 0
try:
    for patch in sorted(glob.glob(V + '/benign/*.diff')):
        name = os.path.basename(patch)[:-5]
        if only and name not in only:
            continue
        what = open(patch[:-5] + '.txt').read().strip() if os.path.exists(patch[:-5] + '.txt') else ''
        if subprocess.run(['git', '-C', WT, 'apply', patch]).returncode != 0:
            rows.append((name, what, {'-': ['patch does not apply']}))
            continue
        det = {}
        try:
            def one(p):
                r = subprocess.run(['./check', p, '--tier', 'quick', '--no-evidence', '--repo', WT], cwd=V, capture_output=True, text=True)
                return p, r.returncode, sorted(set(re.findall(r'rule (R[0-9.]+) \[(\w+)\] instance "([^"]+)"', r.stdout)))
            import concurrent.futures as cf
            first = one(claimed[0])      # (extracts the facts once; the others reuse them)
            with cf.ThreadPoolExecutor(8) as ex:
                rest = list(ex.map(one, claimed[1:]))
            for p, rc, rules in [first] + rest:
                if rc != 0:
                    det[p] = ['%s %s (%s)' % (a, c, b) for a, b, c in rules][:6] or ['exit %d' % rc]
        finally:
            subprocess.run('git -C %s checkout -- . && git -C %s clean -fdq' % (WT, WT), shell=True)
        rows.append((name, what, det))
        bad += bool(det)
        print(name, '->', det or 'silent', flush=True)
finally:
    subprocess.run(['git', '-C', '/repo', 'worktree', 'remove', '--force', WT], capture_output=True)
if not only:
    with open(V + '/benign/RESULTS.md', 'w') as fh:
        fh.write('# Behaviour-preserving refactorings vs. checks (quick tier; every check must stay silent)\n\n| refactoring | what | alarms |\n|---|---|---|\n')
        for name, what, det in rows:
            fh.write('| %s | %s | %s |\n' % (name, what.replace('|', '/')[:160], '; '.join('%s: %s' % (k, ', '.join(v[:3])) for k, v in det.items()) or 'none'))
print('%d refactorings, %d with alarms' % (len(rows), bad))
sys.exit(1 if bad else 0)
