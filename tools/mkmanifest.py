#!/usr/bin/env python3
"""Regenerate /verif/MANIFEST.json from tools/claims.json (claimed checks) and the properties file."""
import json, os
V = os.path.dirname(os.path.dirname(os.path.abspath(__file__)))
claims = json.load(open(os.path.join(V, 'tools', 'claims.json')))
props = [json.loads(l)['id'] for l in open(os.path.join(V, 'properties.jsonl'))]
checks = []
na = []
for p in props:
    c = claims.get(p)
    if c and c.get('claimed'):
        checks.append({
            'property_id': p,
            'quick_cmd': './check %s --tier quick' % p,
            'thorough_cmd': './check %s --tier thorough' % p,
            'evidence_file': 'evidence/%s.json' % p,
            'replay_cmd_template': './check --replay {path}',
            'engine': 'woodfacts+woodlint',
            'level_claimed': {'category': 'other', 'text': c['level_text'], 'design_ref': c.get('design_ref', 'DESIGN.md §5 ' + p)},
            'level_note': c['level_note'],
            'technique': c['technique'],
        })
    else:
        na.append({'property_id': p, 'reason': (c or {}).get('reason', 'no static check built yet for this property in this revision of /verif (see DESIGN.md §5 for the planned rules)')})
m = {
    'version': 1,
    'setup_cmd': 'cd /verif && ./setup.sh',
    'hooks': {
        'guard': 'woodpile_verif',
        'enable': 'none needed: static analysis reads the unmodified source (guard name reserved, unused)',
        'baseline_off_cmd': 'cd /repo && cargo test --workspace --no-fail-fast --offline',
        'source_commits': [],
        'add_only': True,
    },
    'engines': [
        {'name': 'woodfacts', 'path': 'engine/driver', 'serves_properties': [c['property_id'] for c in checks],
         'kind_free_text': 'rustc_private driver (nightly) injected with RUSTC_WORKSPACE_WRAPPER under cargo check: dumps MIR (opt-level 0) with resolved callees, evaluated constants, ADT/impl/visibility inventories as JSON'},
        {'name': 'woodlint', 'path': 'engine/woodlint', 'serves_properties': [c['property_id'] for c in checks],
         'kind_free_text': 'Python rule engine over the facts: CFG, dominators, edge-sensitive reachability, def-use expression reconstruction, guard polarity, call graph, intervals; rules in rules/cNN.py; positive-control patches in controls/'},
    ],
    'checks': checks,
    'not_applicable': na,
    'notes': claims.get('_notes', ''),
}
json.dump(m, open(os.path.join(V, 'MANIFEST.json'), 'w'), indent=1)
print('MANIFEST: %d checks, %d not applicable' % (len(checks), len(na)))
