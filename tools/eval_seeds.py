#!/usr/bin/env python3
"""Apply every kept seeded change (/verif/seeded/*/patch.diff) to /repo in turn, run the quick checks, undo it,
and record which checks/rules caught it in the seed's meta.json and in seeded/RESULTS.md."""
import json, os, re, subprocess, sys, glob
V = '/verif'
claimed = [c['property_id'] for c in json.load(open(V + '/MANIFEST.json'))['checks']]
only = [a for a in sys.argv[1:] if not a.startswith('--')]
# the changes are applied to a scratch worktree of /repo (never to /repo itself), removed at the end
WT = '/tmp/eval-seeds-wt'
subprocess.run(['git', '-C', '/repo', 'worktree', 'remove', '--force', WT], capture_output=True)
subprocess.run(['git', '-C', '/repo', 'worktree', 'add', '--detach', WT, 'HEAD'], check=True, capture_output=True)
rows = []
for d in sorted(glob.glob(V + '/seeded/*/')):
    name = os.path.basename(d.rstrip('/'))
    if only and name not in only:
        continue
    patch = d + 'patch.diff'
    meta = json.load(open(d + 'meta.json')) if os.path.exists(d + 'meta.json') else {}
    if subprocess.run(['git', '-C', WT, 'apply', patch]).returncode != 0:
        meta['detected_by'] = 'patch does not apply to the current /repo'
        json.dump(meta, open(d + 'meta.json', 'w'), indent=1)
        continue
    det = {}
    try:
        def one(p):
            r = subprocess.run(['./check', p, '--tier', 'quick', '--no-evidence', '--repo', WT], cwd=V, capture_output=True, text=True)
            return p, r.returncode, sorted(set(re.findall(r'rule (R[0-9.]+) \[(\w+)\] instance "([^"]+)"', r.stdout)))
        import concurrent.futures as cf
        own = meta.get('property') if meta.get('property') in claimed else claimed[0]
        first = one(own)      # (extracts the facts once; the others reuse them)
        with cf.ThreadPoolExecutor(8) as ex:
            rest = list(ex.map(one, [p for p in claimed if p != own]))
        for p, rc, rules in sorted([first] + rest):
            if rc == 1:
                det[p] = ['%s %s (%s)' % (a, c, b) for a, b, c in rules][:8]
            elif rc != 0:
                det[p] = ['exit %d (no verdict)' % rc]
    finally:
        subprocess.run('git -C %s checkout -- . && git -C %s clean -fdq' % (WT, WT), shell=True)
    meta['detected_by'] = det
    meta['own_property_detected'] = meta.get('property') in det
    json.dump(meta, open(d + 'meta.json', 'w'), indent=1)
    rows.append((name, meta.get('property'), det))
    print(name, '->', {k: len(v) for k, v in det.items()})
subprocess.run(['git', '-C', '/repo', 'worktree', 'remove', '--force', WT], capture_output=True)
with open(V + '/seeded/RESULTS.md', 'a' if only else 'w') as fh:
    if not only:
        fh.write('# Seeded changes vs. checks (quick tier, applied to /repo and undone)\n\n| seed | property | caught by (check: rule instances) |\n|---|---|---|\n')
    for name, prop, det in rows:
        fh.write('| %s | %s | %s |\n' % (name, prop, '; '.join('%s: %s' % (k, ', '.join(v[:3])) for k, v in det.items()) or '**MISSED**'))
