#!/usr/bin/env python3
"""Confirm a seeded change myself in its scratch worktree and store it under /verif/seeded/<name>/.
usage: confirm_seed.py <PROP> <k> [--crate <crate>] : uses /tmp/wt-<PROP> and /tmp/seed-<PROP>/m<k>.{diff,_demo.rs,_notes.md}"""
import json, os, re, shutil, subprocess, sys, time
prop, k = sys.argv[1], sys.argv[2]
pre = sys.argv[sys.argv.index('--prefix') + 1] if '--prefix' in sys.argv else 'm'
wt = '/tmp/wt-%s' % prop
seed = '/tmp/seed-%s' % prop
diff = '%s/%s%s.diff' % (seed, pre, k)
demo = '%s/%s%s_demo.rs' % (seed, pre, k)
notes = '%s/%s%s_notes.md' % (seed, pre, k)
env = dict(os.environ, CARGO_NET_OFFLINE='true', CARGO_TARGET_DIR=wt + '/target')
def sh(cmd, **kw):
    return subprocess.run(cmd, shell=True, cwd=wt, env=env, capture_output=True, text=True, **kw)
def clean():
    sh('git checkout -- . && git clean -fdq -e target')
def counts(out):
    p = sum(int(x) for x in re.findall(r'test result: \w+\. (\d+) passed', out))
    f = sum(int(x) for x in re.findall(r'test result: \w+\. \d+ passed; (\d+) failed', out))
    return p, f
clean()
crate = None
if '--crate' in sys.argv:
    crate = sys.argv[sys.argv.index('--crate') + 1]
else:
    m = re.search(r'^\+\+\+ b/([^/]+)/', open(diff).read(), re.M)
    crate = m.group(1)
meta = {'property': prop, 'mutant': '%s%s' % (pre, k), 'crate_of_demo': crate}
r = sh('git apply %s' % diff)
if r.returncode != 0:
    print('patch does not apply', r.stderr); sys.exit(1)
t0 = time.time()
r = sh('cargo test --workspace --no-fail-fast --offline 2>&1')
p, f = counts(r.stdout)
meta['suite_with_change'] = {'passed': p, 'failed': f, 'exit': r.returncode}
has_demo = os.path.exists(demo)
if has_demo:
    os.makedirs('%s/%s/tests' % (wt, crate), exist_ok=True)
    shutil.copy(demo, '%s/%s/tests/seed_demo.rs' % (wt, crate))
    rel = ' --release' if '--release' in sys.argv else ''
    r = sh('cargo test -p %s --test seed_demo --offline%s 2>&1' % (crate, rel))
    p2, f2 = counts(r.stdout)
    meta['demo_with_change'] = {'passed': p2, 'failed': f2, 'exit': r.returncode, 'tail': r.stdout[-600:]}
    sh('git apply -R %s' % diff)
    r = sh('cargo test -p %s --test seed_demo --offline%s 2>&1' % (crate, rel))
    p3, f3 = counts(r.stdout)
    meta['demo_without_change'] = {'passed': p3, 'failed': f3, 'exit': r.returncode}
clean()
ok = meta['suite_with_change']['failed'] == 0 and meta['suite_with_change']['exit'] == 0 and meta['suite_with_change']['passed'] >= 122
if has_demo:
    ok = ok and meta['demo_with_change']['exit'] != 0 and meta['demo_without_change']['exit'] == 0
meta['confirmed'] = ok
meta['wall_s'] = round(time.time() - t0, 1)
out = '/verif/seeded/%s-%s%s' % (prop, pre, k)
os.makedirs(out, exist_ok=True)
shutil.copy(diff, out + '/patch.diff')
if has_demo:
    shutil.copy(demo, out + '/demo.rs')
if os.path.exists(notes):
    shutil.copy(notes, out + '/notes.md')
meta['what_i_ran'] = ['git apply patch.diff (scratch worktree)', 'cargo test --workspace --no-fail-fast --offline  (existing suite, change applied)',
                      'cargo test -p %s --test seed_demo --offline%s  (demo as %s/tests/seed_demo.rs, change applied: must fail)' % (crate, ' --release' if '--release' in sys.argv else '', crate),
                      'git apply -R patch.diff; same demo again (must pass)']
json.dump(meta, open(out + '/meta.json', 'w'), indent=1)
print(json.dumps({k2: v for k2, v in meta.items() if k2 != 'what_i_ran'}, indent=1)[:1500])
