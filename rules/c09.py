"""C09 — streaming codecs: what is drained is a stable prefix; lag is bounded by one pending header (encoder), zero (decoder)."""
from .oiv import *  # noqa: F401,F403
from engine.woodlint.db import Pos, as_relation, show

PROPERTY = 'C09'

EXPLANATION = """
Static analysis of hcobs::{lib, encoder, decoder} over the resolved call graph.  The only thing that can make
produced output unconsumable is a pending placeholder (C04).  Decided: (R9.1) the decoder never blocks its
consumer: OwningIovec::register_patch is not reachable from any function of hcobs::Decoder or of the decoder
state machine — with C04's funnel this is "lag zero"; (R9.2) an encoder has at most one placeholder pending:
in hcobs register_patch is called only from EncoderState::new and new_subsequent, EncoderState holds exactly
one Backref, consume_once backfills the current header (encode_header with self.backref) before it opens the
next chunk, every path of terminate backfills, encode_header passes its Backref to backfill_or_panic on every
path, and Default (no placeholder) state is only the transient swapped-out value; the producer-side entry
points never clear or take the iovec while a header is pending; (R9.3) consumer() of both codecs is the
iovec's ConsumingIovec (the only drain path, clamped by C04) and finish() returns the very iovec that was
fed, after terminate; (R9.4) what can be drained is exactly the stable prefix and draining keeps the logical
slice indices of pending headers right: the funnel, clamp and counter rules of C04/C03 (R4.1-R4.3, R4.6, R3.2,
R3.3) are re-evaluated here.
NOT decided: the numeric lag bound (one arena chunk + one 64008-byte chunk) and that drained + finished equals
the complete output (value-level; the prefix-stability part reduces to C04's rules).
(R9.5 = R5.3, R5.4, R17.6) output slices that borrow from a read buffer are backed until drained: the anchor
is queued after the slices that reference it on every path, both halves of AnchoredSlice::split_at keep a
clone of the anchor, and encode_read / decode_read feed their buffer through the anchored entry points.
"""

ASSUMPTIONS = ['C04 (pending placeholders are the only blockers)', 'typestate witnesses W1/W8 (thorough tier)']

FLOORS = {'R9.1': 10, 'R9.2': 6, 'R9.3': 4, 'R9.4': 1, 'R9.5': 1}

ES = 'hcobs::encoder::EncoderState'


def r9_1(cx):
    """the decoder never registers a placeholder"""
    prog = cx.prog
    rp = prog.fn(OI + '::register_patch')
    dfns = [f for f in prog.fns.values() if f.crate == 'hcobs' and (f.name.startswith('hcobs::Decoder::') or '::decoder::' in f.name) and not f.d.get('derived')]
    cx.require(len(dfns) >= 18, 'fewer than 18 decoder functions found')
    for f in sorted(dfns, key=lambda f: f.name):
        local, ext, parent = prog.may_call_star(f)
        cx.count_sites()
        cx.check(rp not in local, 'no-placeholder:' + short(f.name), f, None, 'register_patch not reachable (%d local callees)' % len(local),
                 fail_detail='register_patch is reachable: %s' % prog.call_chain(parent, rp))


def r9_2(cx):
    """at most one header placeholder pending in an encoder"""
    prog = cx.prog
    rp = prog.fn(OI + '::register_patch')
    callers = sorted({cs.fn.name for cs in prog.callers_of(rp.name) if cs.matches(rp) and cs.fn.crate == 'hcobs'})
    cx.check(callers == sorted([ES + '::new', ES + '::new_subsequent']), 'who-registers', rp, None, 'in hcobs only EncoderState::new / new_subsequent register placeholders',
             fail_detail='register_patch is called from %s' % callers)
    adt = prog.adt(ES)
    br = [f['n'] for f in adt['variants'][0]['fields'] if 'Backref' in f['ty']]
    cx.check(len(br) == 1, 'one-backref-field', None, '%s:%s' % (adt['file'], adt['line']), 'EncoderState holds exactly one Backref', fail_detail='Backref fields: %s' % br)
    co = prog.fn(ES + '::consume_once')
    eh, ns = list(co.calls(prog.fn(ES + '::encode_header'))), list(co.calls(prog.fn(ES + '::new_subsequent')))
    ok = len(eh) == 1 and len(ns) == 1 and co.pos_dominates(eh[0].pos, ns[0].pos) and is_param_field(eh[0].arg(2), br[0] if br else 'backref')
    cx.check(ok, 'close-before-open', co, ns[0].loc() if ns else None, 'the pending header is backfilled (encode_header(.., self.backref)) before new_subsequent registers the next one',
             fail_detail='a second placeholder can be registered while the previous header is still pending')
    # chunks opened nowhere else
    opens = sorted({cs.fn.name for t in (ES + '::new', ES + '::new_subsequent') for cs in prog.callers_of(t) if cs.matches(prog.fn(t))})
    cx.check(set(opens) <= {co.name, 'hcobs::Encoder::new_from_iovec'}, 'who-opens', None, 'hcobs/src/encoder.rs', 'chunks are opened only by Encoder::new_from_iovec and consume_once: %s' % [short(o) for o in opens],
             fail_detail='chunks opened from %s' % opens)
    tm = prog.fn(ES + '::terminate')
    ehs = list(tm.calls(prog.fn(ES + '::encode_header')))
    ok = len(ehs) == 1 and tm.escapes(Pos(0, -1), avoid=[ehs[0].pos]) is None and is_param_field(ehs[0].arg(2), br[0] if br else 'backref')
    cx.check(ok, 'terminate-backfills', tm, None, 'every path of terminate backfills the pending header', fail_detail='terminate can return with the header still pending')
    ehf = prog.fn(ES + '::encode_header')
    bf = list(ehf.calls(prog.fn(OI + '::backfill_or_panic')))
    ok = len(bf) == 1 and ehf.escapes(Pos(0, -1), avoid=[bf[0].pos]) is None and bf[0].arg(1).strip().kind == 'param'
    cx.check(ok, 'header-backfills', ehf, None, 'encode_header hands its Backref to backfill_or_panic on every path', fail_detail='encode_header can return without backfilling')
    # producer entry points do not clear/take the iovec under the encoder
    bad = []
    for f in prog.fns.values():
        if f.name.startswith('hcobs::Encoder::') or '::encoder::' in f.name:
            for cs in f.calls():
                if (cs.matches(OI + '::clear') or cs.matches(OI + '::take')) and f.name != 'hcobs::Encoder::finish':
                    bad.append('%s in %s' % (short(cs.callee), short(f.name)))
    cx.check(not bad, 'no-clear-under-encoder', None, 'hcobs/src/lib.rs', 'the encoder never clears or takes its iovec mid-stream', fail_detail='iovec reset while a header may be pending: %s' % bad)


def r9_3(cx):
    """consumer() is the iovec's consumer; finish() returns the fed iovec after terminate"""
    prog = cx.prog
    for side in ('hcobs::Encoder', 'hcobs::Decoder'):
        c = prog.fn(side + '::consumer')
        r = c.local_expr(0, []).strip()
        ok = is_call(r, OI + '::consumer') and rooted_in_param_field(r.args[0], 'iovec')
        cx.check(ok, 'consumer:' + short(side), c, None, 'consumer() = self.iovec.consumer()', fail_detail='consumer() returns %s' % show(r)[:100])
        f = prog.fn(side + '::finish')
        term = [cs for cs in f.calls() if cs.callee.endswith('State::terminate')]
        cx.count_sites()
        r = f.local_expr(0, [])
        alts = [a.strip() for a in phi_alts(r)]
        good = False
        for a in alts:
            x = a.args[0].strip() if (a.kind == 'agg' and a.info.get('variant') == 'Ok') else a
            if is_param_field(x, 'iovec'):
                good = True
        cx.check(len(term) == 1 and good, 'finish:' + short(side), f, None, 'finish() = terminate(state) then self.iovec', fail_detail='finish() does not return the fed iovec after terminate')
        if side.endswith('Decoder'):
            oks = [p for p, e in agg_sites(f, variant='Ok', local=0)]
            gated = bool(oks) and any(e.kind == 'discr' and e.has_call('terminate') and val == ('in', frozenset([0])) for e, val, ed in f.facts_at(oks[0].bb))
            cx.check(gated, 'finish-gated:Decoder', f, None, 'Ok(iovec) only on the Ok edge of terminate', fail_detail='Decoder::finish returns Ok without terminate having succeeded')


def r9_4(cx):
    """what the consumer can drain is exactly the stable prefix and draining keeps the logical indices right (R4.1-R4.3, R4.6, R3.2, R3.3)"""
    from . import c04, c03
    from .util import compose
    compose(cx, [('R4.1', c04.r4_1), ('R4.2', c04.r4_2), ('R4.3', c04.r4_3), ('R4.6', c04.r4_6), ('R3.2', c03.r3_2), ('R3.3', c03.r3_3)])


def r9_5(cx):
    """bytes fed from read buffers stay alive until drained: anchors are queued after the slices they back, both halves of a split keep the anchor, queued anchors are appended, never overwritten, and leave only at count zero, the read wrappers go through the anchored entry points (R5.3, R5.4, R5.7, R17.6)"""
    from . import c05, c17
    from .util import compose
    from . import c10
    compose(cx, [('R5.3', c05.r5_3), ('R5.4', c05.r5_4), ('R5.6', c05.r5_6), ('R5.7', c05.r5_7), ('R5.8', c05.r5_8), ('R5.9', c05.r5_9), ('R10.6', c10.zero_count_loop, 1), ('R17.6', c17.r17_6), ('R17.7', c17.r17_7)])


RULES = [('R9.1', r9_1), ('R9.2', r9_2), ('R9.3', r9_3), ('R9.4', r9_4), ('R9.5', r9_5)]
RULES.append(('R9.6', scan_rule(('hcobs::',))))
FLOORS['R9.6'] = 1
