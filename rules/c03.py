"""C03 — OwningIovec as a FIFO byte pipe: accounting shape only (no empty slice stored, counters move with the
deque, every consuming call reports what it removed)."""
from .oiv import *  # noqa: F401,F403
from . import c04
from engine.woodlint.db import Pos, as_relation, show, Unrecognised

PROPERTY = 'C03'

EXPLANATION = """
Static analysis of owning_iovec::{implementation, global_deque, lib}.  FIFO equality over unbounded histories is
value-level and NOT decided.  Three clauses of the statement are shapes and are decided: (R3.1) no empty slice
is ever stored: every call to GlobalDeque::push / push_borrowed is dominated by the non-empty edge of an
emptiness test on the very slice pushed (push_borrowed, push_copy on its source, extend), GlobalDeque::new is
fed only by new_from_slices after retain(|s| s.len() > 0), both pushes assert !is_empty themselves, and
consume_by_bytes replaces the front slice only on the non-empty edge (otherwise it consumes it whole);
(R3.2) counters move with the deque: in GlobalDeque every slices.push_back is paired with logical_size +=
len(that slice), consume adds the summed lengths of slices[..count] to consumed_size and count to
consumed_slices and advances by the same clamped count, the in-place front replacement adds exactly the bytes
cut off, clear resets all three counters with both deques, total_size is logical_size - consumed_size and
last_logical_slice_index is consumed_slices + len - 1; (R3.3) every consuming call reports what it removed:
ConsumingIovec::consume / advance_slices return the GlobalDeque result, GlobalDeque::consume returns the
clamped count it advanced by (asserted equal to what the deque advanced), consume_by_bytes returns the sum of
the per-slice amounts, Read::read copies, advances and counts the same `to_write` = min(front.len(),
dst.len()) bytes per iteration, from front(); (R3.4 = R4.1-R4.3, R4.6) every consumer view goes through the stable prefix, which stops at the earliest pending placeholder; consumption is clamped by the stable prefix
and placeholders travel with their bytes (so a backfilled placeholder holds its value).
"""

ASSUMPTIONS = ['SlidingDeque / SortedDeque clauses (C15, C16)', 'C04 for placeholder visibility']

FLOORS = {'R3.1': 7, 'R3.2': 9, 'R3.3': 6, 'R3.4': 1}


def _nonempty_fact(fn, bb, slice_expr_show=None):
    """a mandatory fact at bb saying some slice is non-empty: returns the expr tested (is_empty false / len > 0)"""
    out = []
    for e, v, ed in fn.facts_at(bb):
        x = e.strip()
        if v is False and x.kind == 'call' and x.op.endswith('::is_empty') and x.args:
            out.append(x.args[0])
        rel = as_relation((e, v))
        if rel and rel[0] == 'Gt' and is_call(rel[1], 'len') and rel[2].is_const_int(0):
            out.append(rel[1].strip().args[0])
    return out


def _roots(e):
    return {('param', n.info['i']) for n in e.walk() if n.kind == 'param'} | {('call', n.pos) for n in e.walk() if n.kind == 'call' and n.op.endswith('Iterator>::next')}


def r3_1(cx):
    """no empty slice is ever stored"""
    prog = cx.prog
    for target in ('push', 'push_borrowed'):
        t = prog.fn(GD + '::' + target)
        for cs in prog.callers_of(t.name):
            if not cs.matches(t):
                continue
            cx.count_sites()
            f = cs.fn
            pushed = cs.arg(1)
            tested = _nonempty_fact(f, cs.bb)
            ok = False
            for x in tested:
                if _roots(x) & _roots(pushed) or (f.name.endswith('push_copy') and any(n.kind == 'param' for n in x.walk())):
                    ok = True
            cx.check(ok, 'guarded:%s<-%s' % (target, short(f.name)), f, cs.loc(), 'pushed only on the non-empty edge of a test on the same slice',
                     fail_detail='%s can hand GlobalDeque::%s an empty slice (no emptiness test on the pushed slice dominates the call)' % (short(f.name), target))
        # the callee asserts too
        okA = any(True for b in t.live_blocks() for e, v, ed in [(x[0], x[1], None) for s in t.succs()[b] for x in t.edge_facts(b, s)]
                  if v is False and e.strip().kind == 'call' and e.strip().op.endswith('::is_empty'))
        cx.check(okA, 'asserted:' + target, t, None, 'GlobalDeque::%s asserts !slice.is_empty()' % target, fail_detail='GlobalDeque::%s no longer asserts non-emptiness' % target)
    nw = prog.fn(GD + '::new')
    callers = [cs for cs in prog.callers_of(nw.name) if cs.matches(nw)]
    okn = len(callers) == 1 and callers[0].fn.name == OI + '::new_from_slices'
    if okn:
        f = callers[0].fn
        ret = [c for c in f.calls('Vec::retain')]
        okn = len(ret) == 1 and f.pos_dominates(ret[0].pos, callers[0].pos)
        cl = prog.closures_of(f)
        if okn and cl:
            r = cl[0].local_expr(0, []).strip()
            okn = (r.kind == 'binop' and r.op == 'Gt' and is_call(r.a, 'len') and r.b.is_const_int(0)) or (r.kind == 'unop' and r.op == 'Not' and is_call(r.a, 'is_empty'))
        # retain on the very vector handed to GlobalDeque::new
        okn = okn and callers[0].arg(0).strip().kind == 'param' and ret[0].arg(0).strip().kind == 'param' and \
            callers[0].arg(0).strip().info['i'] == ret[0].arg(0).strip().info['i']
    cx.check(okn, 'constructor-filters', nw, None, 'GlobalDeque::new is fed only by new_from_slices after slices.retain(|s| s.len() > 0)',
             fail_detail='slices reach GlobalDeque::new without the empty-slice filter (callers: %s)' % sorted({c.fn.name for c in callers}))
    cb = prog.fn(GD + '::consume_by_bytes')
    st = [(pos, cb.rvalue_expr(rv)) for pos, pl, rv in cb.stores() if rv is not None and cb.rvalue_expr(rv).has_call('IoSlice::new')]
    okc = len(st) == 1 and any(v is False and e.strip().kind == 'call' and e.strip().op.endswith('::is_empty') for e, v, ed in cb.facts_at(st[0][0].bb))
    whole = [cs for cs in cb.calls(prog.fn(GD + '::consume')) if any(v is True and e.strip().kind == 'call' and e.strip().op.endswith('::is_empty') for e, v, ed in cb.facts_at(cs.bb))]
    cx.check(okc and len(whole) == 1, 'front-replacement', cb, None, 'the front slice is re-sliced only when something remains; otherwise it is consumed whole',
             fail_detail='consume_by_bytes can leave an empty front slice')


def _field_store(fn, name):
    return [(pos, fn.rvalue_expr(rv).strip()) for pos, pl, rv in fn.stores() if pl['p'] and pl['p'][-1]['k'] == 'field' and pl['p'][-1]['n'] == name and rv is not None]


def r3_2(cx):
    """counters move with the deque"""
    prog = cx.prog
    for target in ('push', 'push_borrowed'):
        f = prog.fn(GD + '::' + target)
        pb = [cs for cs in f.calls(SL + '::push_back')]
        ls = _field_store(f, 'logical_size')
        cx.count_sites()
        ok = len(pb) == 1 and len(ls) == 1 and ls[0][1].kind == 'binop' and ls[0][1].op == 'Add' and is_param_field(ls[0][1].a, 'logical_size')
        if ok:
            inc = ls[0][1].b.strip()
            ok = is_call(inc, 'len') and _roots(inc) & _roots(pb[0].arg(1)) and rooted_in_param_field(pb[0].arg(0), 'slices')
            ok = ok and f.escapes(ls[0][0], avoid=[pb[0].pos]) is None and f.pos_dominates(ls[0][0], pb[0].pos)
        cx.check(bool(ok), 'size-with-push:' + target, f, None, 'logical_size += len(slice); slices.push_back(that slice) on every path',
                 fail_detail='%s does not add exactly the pushed slice\'s length to logical_size' % target)
    f = prog.fn(GD + '::consume')
    cs_ = _field_store(f, 'consumed_size')
    cn = _field_store(f, 'consumed_slices')
    adv = [c for c in f.calls(SL + '::advance')]
    ok = len(cs_) == 1 and len(cn) == 1 and len(adv) == 1
    if ok:
        cnt = adv[0].arg(1).strip()
        summed = cs_[0][1].b.strip() if cs_[0][1].kind == 'binop' else None
        over_prefix = summed is not None and any(n.kind == 'agg' and n.info.get('variant') == 'RangeTo' and show(n.args[0].strip()) == show(cnt) for n in summed.walk())
        ok = is_call(cnt, 'Ord::min') and over_prefix and cn[0][1].kind == 'binop' and show(cn[0][1].b.strip()) == show(cnt)
        if ok and is_call(summed, 'Iterator::sum'):
            # the closure mapped over the prefix (whichever function it was written in) measures each slice
            cls = [closure_of(prog, n) for n in summed.walk() if n.kind == 'agg' and n.info.get('ak') == 'closure']
            cls = [c for c in cls if c is not None]
            ok = len(cls) == 1 and is_call(cls[0].local_expr(0, []), 'len')
        elif ok:
            # the explicit spelling: acc = 0; for s in slices[..n].iter() { acc += s.len() }
            alts = [a.strip() for a in phi_alts(summed)]
            zero = [a for a in alts if a.is_const_int(0)]
            adds = [a for a in alts if a.kind == 'binop' and a.op == 'Add']
            ok = len(zero) == 1 and len(adds) == len(alts) - 1 and adds and all(
                any(is_call(x, 'len') and x.has_call('Iterator>::next') and not any(n.kind == 'binop' for n in x.walk()) for x in (a.a, a.b)) for a in adds)
    cx.check(bool(ok), 'consume-counters', f, None, 'consumed_size += sum(len(slices[..n])); consumed_slices += n; slices.advance(n) with the same n = min(count, len)',
             fail_detail='GlobalDeque::consume does not move its counters by what it advances')
    r = f.local_expr(0, []).strip()
    cb = prog.fn(GD + '::consume_by_bytes')
    st = _field_store(cb, 'consumed_size')
    ok = len(st) == 1 and st[0][1].kind == 'binop' and st[0][1].op == 'Add'
    if ok:
        inc = st[0][1].b.strip()
        frp = [c for c in cb.calls('from_raw_parts')]
        ok = len(frp) == 1 and is_call(inc, 'Ord::min') and any(is_call(n, 'add') and show(n.strip().args[1].strip()) == show(inc) for n in frp[0].arg(0).walk() if n.kind == 'call') and \
            frp[0].arg(1).strip().kind == 'binop' and frp[0].arg(1).strip().op == 'Sub' and show(frp[0].arg(1).strip().b.strip()) == show(inc)
    cx.check(bool(ok), 'partial-front', cb, None, 'front re-sliced to (ptr + n, len - n) and consumed_size += n with the same n = min(remaining, len)',
             fail_detail='consume_by_bytes does not account exactly the bytes it cuts off the front slice')
    cl = prog.fn(GD + '::clear')
    zero = {n for n in ('logical_size', 'consumed_size', 'consumed_slices') if any(v.is_const_int(0) for p, v in _field_store(cl, n))}
    cx.check(len(zero) == 3 and len(list(cl.calls(SL + '::clear'))) == 1, 'clear-resets', cl, None, 'clear zeroes all three counters and clears the deque', fail_detail='clear resets only %s' % sorted(zero))
    ts = prog.fn(GD + '::total_size')
    r = ts.local_expr(0, []).strip()
    cx.check(r.kind == 'binop' and r.op == 'Sub' and is_param_field(r.a, 'logical_size') and is_param_field(r.b, 'consumed_size'), 'total_size', ts, None,
             'total_size = logical_size - consumed_size', fail_detail='total_size is %s' % show(r)[:100])
    li = prog.fn(GD + '::last_logical_slice_index')
    r = li.local_expr(0, []).strip()
    ok = r.kind == 'binop' and r.op == 'Sub' and r.b.is_const_int(1) and r.a.strip().kind == 'binop' and r.a.strip().op == 'Add' and is_param_field(r.a.strip().a, 'consumed_slices')
    cx.check(ok, 'logical-index', li, None, 'last_logical_slice_index = consumed_slices + len - 1', fail_detail='last_logical_slice_index is %s' % show(r)[:100])
    gl = prog.fn(GD + '::get_logical_slice')
    ok = any(is_call(n, 'wrapping_sub') and is_param_field(n.strip().args[1], 'consumed_slices') for cs in gl.calls('get') for n in cs.arg(1).walk() if n.kind == 'call')
    cx.check(ok, 'logical-lookup', gl, None, 'get_logical_slice(i) = slices.get(i - consumed_slices)', fail_detail='get_logical_slice does not subtract consumed_slices')
    gp = prog.fn(GD + '::get_logical_prefix')
    ix = [cs for cs in gp.calls('Index<I>>::index')]
    ok = len(ix) == 1 and any(is_call(n, 'Ord::min') for n in ix[0].arg(1).walk() if n.kind == 'call') and \
        any(n.kind == 'binop' and n.op == 'Sub' and is_param_field(n.b, 'consumed_slices') for n in ix[0].arg(1).walk())
    cx.check(ok, 'logical-prefix', gp, None, 'get_logical_prefix(end) = slices[..min(end - consumed_slices, len)]', fail_detail='get_logical_prefix does not translate the logical index by consumed_slices')


def r3_3(cx):
    """every consuming call reports exactly what it removed"""
    prog = cx.prog
    for nm, inner in (('consume', GD + '::consume'), ('advance_slices', GD + '::consume_by_bytes')):
        f = prog.fn(CI + '::' + nm)
        r = f.local_expr(0, []).strip()
        cx.count_sites()
        okf = is_call(r, prog.fn(inner))
        if not okf:
            # ... or 0 on an early return taken only where nothing was asked for (count == 0)
            alts = [a.strip() for a in phi_alts(r)]
            zeros = [a for a in alts if a.is_const_int(0)]
            okf = any(is_call(a, prog.fn(inner)) for a in alts) and all(is_call(a, prog.fn(inner)) or a.is_const_int(0) for a in alts) and bool(zeros)
            for pos, st in f.statements():
                if st['k'] == 'assign' and st['pl']['l'] == 0 and not st['pl']['p'] and st['rv']['k'] == 'use' and f.rvalue_expr(st['rv']).is_const_int(0):
                    okf = okf and any((rel := as_relation((e, v))) and rel[0] == 'Eq' and rel[1].strip().kind == 'param' and rel[2].is_const_int(0)
                                      for e, v, ed in f.facts_at(pos.bb))
        cx.check(okf, 'forwards:' + nm, f, None, 'returns the GlobalDeque result', fail_detail='%s returns %s' % (nm, show(r)[:80]))
    f = prog.fn(GD + '::consume')
    r = f.local_expr(0, []).strip()
    adv = [c for c in f.calls(SL + '::advance')]
    ok = is_call(r, 'Ord::min') and len(adv) == 1 and show(adv[0].arg(1).strip()) == show(r)
    eq = False
    for b in f.live_blocks():
        rel = as_relation((f.switch_expr(b), True)) if f.term(b)['k'] == 'switch' and f.bool_edges(b) else None
        if rel and rel[0] == 'Eq' and any(is_call(x, SL + '::advance') for x in (rel[1], rel[2])):
            eq = True
    cx.check(ok and eq, 'consume-returns-count', f, None, 'returns n = min(count, len), asserted equal to what the deque advanced', fail_detail='consume returns %s' % show(r)[:80])
    cb = prog.fn(GD + '::consume_by_bytes')
    alts = phi_alts(cb.local_expr(0, []))
    ok = len(alts) >= 2 and all(a.is_const_int(0) or (a.strip().kind == 'binop' and a.strip().op == 'Add' and is_call(a.strip().b, 'Ord::min')) for a in alts)
    cx.check(ok, 'bytes-returned', cb, None, 'returns 0 + the per-slice amounts it consumed', fail_detail='consume_by_bytes returns %s' % [show(a)[:60] for a in alts])
    rd = [f for f in prog.fns.values() if f.name.endswith("ConsumingIovec<'_> as std::io::Read>::read")]
    cx.require(len(rd) == 1, 'Read impl for ConsumingIovec not found')
    f = rd[0]
    adv = [c for c in f.calls(prog.fn(CI + '::advance_slices'))]
    cp = [c for c in f.calls('copy_from_slice')]
    fr = [c for c in f.calls(prog.fn(OI + '::front'))]
    ok = len(adv) == 1 and len(cp) == 1 and len(fr) == 1
    if ok:
        n = adv[0].arg(1).strip()
        ok = is_call(n, 'Ord::min') and any(any(c.pos == fr[0].pos for c in a.calls()) for a in n.args)
        src, dst = cp[0].arg(1), cp[0].arg(0)
        same = lambda e: any(x.kind == 'agg' and x.info.get('variant') == 'RangeTo' and show(x.args[0].strip()) == show(n) for x in e.walk())
        ok = ok and same(src) and same(dst) and any(c.pos == fr[0].pos for c in src.calls())
        ok = ok and f.pos_dominates(cp[0].pos, adv[0].pos)
        acc = phi_alts(f.local_expr(0, []).strip().args[0]) if f.local_expr(0, []).strip().kind == 'agg' else []
        ok = ok and bool(acc) and all(a.is_const_int(0) or (a.strip().kind == 'binop' and a.strip().op == 'Add' and show(a.strip().b.strip()) == show(n)) for a in acc)
    cx.check(ok, 'read', f, None, 'each iteration copies, advances and counts the same n = min(front().len(), dst.len()) bytes', fail_detail='Read::read does not report exactly the bytes it copied and removed')
    pf = prog.fn(CI + '::pop_front')
    ok = any((r := as_relation((e, v))) and r[0] == 'Eq' for b in pf.live_blocks() for s in pf.succs()[b] for (e, v) in [(x[0], x[1]) for x in pf.edge_facts(b, s)])
    cx.check(ok, 'pop_front', pf, None, 'pop_front asserts that exactly one slice was removed', fail_detail='pop_front does not check what was removed')


def r3_4(cx):
    """the consumer sees only the stable prefix, which stops at the earliest pending placeholder; consumption clamped by it; placeholders are keyed and patched at the right byte and travel with their bytes; separate iovecs never share an allocation cache (R4.1-R4.3, R4.5, R4.6, R20.1)"""
    from . import c20
    compose(cx, [('R4.1', c04.r4_1), ('R4.2', c04.r4_2), ('R4.3', c04.r4_3), ('R4.5', c04.r4_5), ('R4.6', c04.r4_6), ('R20.1', c20.r20_1)])


def r3_5(cx):
    """offsets, sizes and counts are never silently truncated: every integer cast in owning_iovec and sliding_deque is lossless on every path (or audited)"""
    from engine.woodlint.core import table
    prog = cx.prog
    fns = [f for f in prog.fns.values() if f.crate in ('owning_iovec', 'sliding_deque') and (f.kind == 'Closure' or (not f.d.get('derived') and 'fmt::' not in f.name))]
    lossless_casts(cx, fns, table('casts_owning_iovec'), 'a byte offset, size or slice index stored modulo 2^32 points at the wrong byte once the iovec is large enough')


def r3_6(cx):
    """what the pipe stands on: the sliding deque of slices (R15.1-R15.6), the tombstoned map of placeholders (R16.1-R16.4), an allocator that serves every size (R17.7)"""
    from . import c15, c16, c17, c05
    compose(cx, [('R15.1', c15.r15_1), ('R15.2', c15.r15_2), ('R15.3', c15.r15_3), ('R15.4', c15.r15_4), ('R15.5', c15.r15_5), ('R15.6', c15.r15_6), ('R15.7', c15.r15_7), ('R15.8', c15.r15_8),
                 ('R16.1', c16.r16_1), ('R16.2', c16.r16_2), ('R16.3', c16.r16_3), ('R16.4', c16.r16_4), ('R17.7', c17.r17_7), ('R5.4', c05.r5_4), ('R5.7', c05.r5_7), ('R5.8', c05.r5_8)])


RULES = [('R3.1', r3_1), ('R3.2', r3_2), ('R3.3', r3_3), ('R3.4', r3_4), ('R3.5', r3_5), ('R3.6', r3_6)]
RULES.append(('R3.7', scan_rule(('owning_iovec::implementation::', 'owning_iovec::global_deque::'))))
FLOORS['R3.7'] = 1
