"""C04 — pending backpatches are never observable: single funnel, earliest-backref stop, clamped consumption,
Ok <=> nothing pending, placeholder bookkeeping."""
from .oiv import *  # noqa: F401,F403
from engine.woodlint.db import Pos, as_relation, show, Fn

PROPERTY = 'C04'

EXPLANATION = """
Static layering analysis of owning_iovec::{implementation, global_deque, lib}.  The property is at heart a
layering rule and that part is decided: (R4.1) single funnel — GlobalDeque::get_logical_prefix is called only
from OwningIovec::stable_prefix; the GlobalDeque methods that hand out slice data are exactly
{get_logical_prefix, get_logical_slice, last_slice}; every exported read accessor of OwningIovec /
ConsumingIovec / StableIovec (any exported method or trait impl whose return type mentions IoSlice, [u8] or
Vec<u8>, plus Read::read) reaches stable_prefix and none of the raw accessors in the resolved call graph;
get_logical_slice / last_slice are used only by the producer side {push, register_patch, backfill_or_panic};
an accessor outside the table fails as unclassified; (R4.2) the funnel stops at the earliest pending
placeholder: the stop index is first(backrefs).1.unwrap().slice_index; (R4.3) consumption is clamped by the
funnel: ConsumingIovec::consume passes min(count, stable_prefix().len()), advance_slices passes an accumulator
whose only values are 0, sums of lengths of stable_prefix() slices, and `count` on the edge where the current
stable slice covers the rest; pop_front goes through consume; these are the only callers of
GlobalDeque::consume / consume_by_bytes outside global_deque.rs; (R4.4) iovs, flatten_into and
TryFrom<ConsumingIovec> for StableIovec build Ok exactly on the false edge and Err on the true edge of
has_pending_backrefs(), which is !backrefs.is_empty(); (R4.5) bookkeeping: register_patch records
(logical_size, last_logical_slice_index, len(last_slice) - pattern.len(), pattern.len()) after pushing the
pattern, on every non-empty path; backfill_or_panic removes the entry, asserts identity and the bounds
begin + src.len() <= len before the raw copy into get_logical_slice(slice_index) + begin, and validates the length before removing
(a rejected backfill leaves the placeholder pending); (R4.6) placeholders travel with the bytes they block:
take() is a whole-value swap, clear() resets both together, no OwningIovec literal or mem::take separates
slices from backrefs; (R4.7) the logical slice index recorded for a placeholder stays valid under front
consumption because consumed_slices moves with every advance (R3.2 re-evaluated).
NOT decided: that slice indices stay right under merges and front consumption for all histories (index
arithmetic, value-level).
"""

ASSUMPTIONS = ['SortedDeque / SlidingDeque clauses (C15, C16)', 'typestate witnesses W1-W3 (compile-fail, thorough tier)']

FLOORS = {'R4.1': 14, 'R4.2': 2, 'R4.3': 5, 'R4.4': 6, 'R4.5': 9, 'R4.6': 5, 'R4.7': 9}

READ_TABLE = {
    OI + '::stable_prefix': 'the funnel itself',
    OI + '::front': 'first slice of the stable prefix',
    OI + '::iovs': 'stable prefix (+ Ok/Err on pending)',
    OI + '::flatten': 'bytes of the stable prefix',
    OI + '::flatten_into': 'bytes of the stable prefix',
    OI + '::flatten_into_impl': 'bytes of the stable prefix (private helper)',
    SI + '::iovs': 'stable prefix of a StableIovec',
    SI + '::flatten': 'stable prefix of a StableIovec',
    SI + '::flatten_into': 'stable prefix of a StableIovec',
}


def _mentions_data(t):
    return 'IoSlice' in t or '[u8]' in t or 'Vec<u8>' in t


def accessors(prog):
    """exported fns on the three types (inherent or trait impl) whose return type mentions slice data, + Read::read"""
    out = []
    for f in fns_of_crate(prog, 'owning_iovec'):
        if f.kind == 'Closure' or f.d.get('derived'):
            continue
        n = f.name
        on_type = any(n.startswith(t + '::') or ('<' + t) in n or ('<&' in n and t in n) for t in (OI, CI, SI))
        if not on_type:
            continue
        if n.endswith('std::io::Read>::read'):
            out.append(f)
            continue
        if not f.d.get('exported') and f.name not in READ_TABLE:
            continue
        if _mentions_data(ret_type(f)) and f.argc >= 1 and 'OwningIovec' not in ret_type(f).split('<')[0]:
            out.append(f)
    return out


def r4_1(cx):
    """single funnel: every consumer-visible view goes through stable_prefix"""
    prog = cx.prog
    sp = prog.fn(OI + '::stable_prefix')
    glp = prog.fn(GD + '::get_logical_prefix')
    gls = prog.fn(GD + '::get_logical_slice')
    ls = prog.fn(GD + '::last_slice')
    callers = sorted({cs.fn.name for cs in prog.callers_of(glp.name) if cs.matches(glp)})
    cx.check(callers == [sp.name], 'funnel-only-caller', glp, None, 'get_logical_prefix is called only from stable_prefix', fail_detail='get_logical_prefix is called from %s' % callers)
    out = sorted(f.name for f in prog.find_fns(prefix=GD + '::') if f.kind != 'Closure' and 'IoSlice' in ret_type(f))
    cx.check(out == sorted([glp.name, gls.name, ls.name]), 'raw-accessors-frozen', None, 'owning_iovec/src/global_deque.rs',
             'GlobalDeque hands out slice data only through get_logical_prefix / get_logical_slice / last_slice',
             fail_detail='GlobalDeque methods returning slice data: %s' % out)
    producers = {prog.fn(OI + '::push').name, prog.fn(OI + '::register_patch').name, prog.fn(OI + '::backfill_or_panic').name}
    for raw in (gls, ls):
        cs = sorted({c.fn.name for c in prog.callers_of(raw.name) if c.matches(raw)})
        cx.count_sites(len(cs))
        cx.check(set(cs) <= producers and cs, 'raw-only-producers:' + short(raw.name), raw, None, 'called only from the producer side: %s' % [short(c) for c in cs],
                 fail_detail='%s is called from %s' % (short(raw.name), sorted(set(cs) - producers)))
    acc = accessors(prog)
    names = {f.name for f in acc}
    for f in acc:
        cx.count_sites()
        known = f.name in READ_TABLE or f.name.endswith('IntoIterator>::into_iter') or f.name.endswith('std::io::Read>::read')
        if not known:
            cx.fail('accessor:' + short(f.name), f, None, 'exported accessor returning slice data that is not in the audited table (unclassified): ' + ret_type(f), kind='unrecognised')
            continue
        if f is sp:
            cx.ok('accessor:' + short(f.name), f, None, READ_TABLE[f.name])
            continue
        local, ext, parent = prog.may_call_star(f)
        reaches = sp in local
        raw = [g.name for g in (gls, ls) if g in local]
        direct = [cs for cs in f.calls() if cs.matches(glp)]
        # the only way to get_logical_prefix is through stable_prefix (checked above); field `slices` is private
        cx.check(reaches and not raw and not direct, 'accessor:' + short(f.name), f, None, 'reaches stable_prefix and no raw accessor',
                 fail_detail='%s: reaches stable_prefix=%s, raw accessors reachable=%s' % (short(f.name), reaches, raw))
    for must in list(READ_TABLE) + []:
        if must not in names and must != OI + '::flatten_into_impl':
            cx.fail('accessor-missing:' + short(must), None, None, 'accessor %s from the audited table no longer exists or changed signature' % must, kind='unrecognised')
    # direct reads of the `slices` deque of GlobalDeque stay inside global_deque.rs (module privacy) : check field visibility
    gd = prog.adt(GD)
    oi = prog.adt(OI)
    pub = [f['n'] for a in (gd, oi) for f in a['variants'][0]['fields'] if f['vis'].startswith('Public')]
    cx.check(not pub, 'fields-private', None, 'owning_iovec/src/implementation.rs', 'all fields of OwningIovec and GlobalDeque are private', fail_detail='public fields: %s' % pub)


def r4_2(cx):
    """the funnel stops at the earliest pending placeholder"""
    prog = cx.prog
    sp = prog.fn(OI + '::stable_prefix')
    c = list(sp.calls(prog.fn(GD + '::get_logical_prefix')))
    cx.require(len(c) == 1, 'stable_prefix no longer calls get_logical_prefix exactly once')
    stop = c[0].arg(1).strip()
    ok = is_call(stop, 'Option::map') and is_call(stop.args[0], SD + '::first') and is_param_field(stop.args[0].strip().args[0], 'backrefs')
    cx.check(ok, 'stop=first-backref', sp, c[0].loc(), 'stop index = backrefs.first().map(..)', fail_detail='the stop index is %s' % show(stop)[:120])
    cls = prog.closures_of(sp)
    okc = len(cls) == 1
    if okc:
        r = cls[0].local_expr(0, []).strip()
        okc = r.kind == 'proj' and r.info.get('n') == 'slice_index' and is_call(r.a, 'Option::unwrap')
    cx.check(okc, 'stop-field', sp, None, '.. the placeholder\'s slice_index', fail_detail='the closure does not return the slice_index of the backref')
    recv = c[0].arg(0)
    cx.check(is_param_field(recv, 'slices') or (recv.kind == 'ref' and is_param_field(recv.a, 'slices')), 'on-own-slices', sp, None, 'prefix of self.slices')


def r4_3(cx):
    """consumption is clamped by the stable prefix"""
    prog = cx.prog
    sp = prog.fn(OI + '::stable_prefix')
    cons, cbb = prog.fn(GD + '::consume'), prog.fn(GD + '::consume_by_bytes')
    outside = [cs for t in (cons, cbb) for cs in prog.callers_of(t.name) if cs.matches(t) and not cs.fn.name.startswith(GD + '::')]
    who = sorted({cs.fn.name for cs in outside})
    cx.check(who == sorted([CI + '::advance_slices', CI + '::consume']), 'consumers', None, 'owning_iovec/src/implementation.rs',
             'GlobalDeque::consume/consume_by_bytes are called (outside global_deque.rs) only from ConsumingIovec::consume / advance_slices',
             fail_detail='consuming calls from %s' % who)
    f = prog.fn(CI + '::consume')
    cs = list(f.calls(cons))
    ok = len(cs) == 1
    if ok:
        a = cs[0].arg(1).strip()
        ok = is_call(a, 'Ord::min') and any(x.strip().kind == 'param' for x in a.args) and any(is_call(x, 'len') and is_call(x.strip().args[0], sp) for x in a.args)
    cx.check(ok, 'consume-clamped', f, cs[0].loc() if cs else None, 'consume(count.min(stable_prefix().len()))', fail_detail='ConsumingIovec::consume passes %s' % (show(cs[0].arg(1))[:100] if cs else '?'))
    f = prog.fn(CI + '::advance_slices')
    cs = list(f.calls(cbb))
    cx.require(len(cs) == 1, 'advance_slices no longer calls consume_by_bytes exactly once')
    a = cs[0].arg(1)
    def stable_len(e):
        return is_call(e, 'len') and any(is_call(c, sp) for c in e.walk() if c.kind == 'call')

    def remaining(e):
        # the same sum counted down: a budget that starts at `count` and loses the length of each stable slice
        alts = [x.strip() for x in phi_alts(e)]
        # (0 is the budget once a slice covers what is left: allowed as a value, the guard below decides where)
        return bool(alts) and all(x.kind == 'param' or x.is_const_int(0) or (x.kind == 'binop' and x.op == 'Sub' and stable_len(x.b) and x.a.strip().kind in ('param', 'local', 'phi'))
                                  for x in alts) and any(x.kind == 'param' for x in alts)
    kinds = set()
    for alt in phi_alts(a):
        alt = alt.strip()
        if alt.is_const_int(0):
            kinds.add('0')
        elif alt.kind == 'param':
            kinds.add('count')
        elif alt.kind == 'binop' and alt.op == 'Add' and stable_len(alt.b):
            kinds.add('sum-of-stable-slices')
        elif alt.kind == 'binop' and alt.op == 'Sub' and alt.a.strip().kind == 'param' and remaining(alt.b):
            kinds.add('count-minus-what-is-left')
        else:
            kinds.add('other:' + show(alt)[:60])
    cx.check(kinds in ({'0', 'count', 'sum-of-stable-slices'}, {'count', 'count-minus-what-is-left'}, {'count-minus-what-is-left'}), 'advance-clamped', f, cs[0].loc(),
             'byte budget in {0, sums of stable_prefix() slice lengths, count} (or the same sum counted down from count)',
             fail_detail='advance_slices hands consume_by_bytes %s' % sorted(kinds))
    # `count` only where the current stable slice covers the rest
    okc = False
    for pos, st in f.statements():
        if st['k'] == 'assign' and st['rv']['k'] == 'use' and st['rv']['o']['k'] in ('copy', 'move'):
            v = f.rvalue_expr(st['rv']).strip()
            if v.kind == 'param' and f.locals[st['pl']['l']] == 'usize' and st['pl']['l'] not in range(1, f.argc + 1):
                for e, val, ed in f.facts_at(pos.bb):
                    rel = as_relation((e, val))
                    if rel and rel[0] == 'Ge' and stable_len(rel[1]) and \
                            ((rel[2].strip().kind == 'binop' and rel[2].strip().op == 'Sub' and rel[2].strip().a.strip().kind == 'param') or remaining(rel[2])):
                        okc = True
    if not okc:
        # count-down form: what is left becomes 0 (the budget becomes `count`) only where len(stable slice) >= what is left
        for pos, st in f.statements():
            if st['k'] == 'assign' and not st['pl']['p'] and st['rv']['k'] == 'use' and f.rvalue_expr(st['rv']).is_const_int(0) and f.locals[st['pl']['l']] == 'usize' \
                    and st['pl']['l'] not in range(0, f.argc + 1):
                if any((rel := as_relation((e, val))) and rel[0] == 'Ge' and stable_len(rel[1]) and remaining(rel[2]) for e, val, ed in f.facts_at(pos.bb)):
                    okc = True
    cx.check(okc, 'advance-count-guard', f, None, 'the budget becomes `count` only where len(stable slice) >= count - consumed so far',
             fail_detail='advance_slices can take `count` without a stable slice covering it')
    pf = prog.fn(CI + '::pop_front')
    cx.check(len(list(pf.calls(prog.fn(CI + '::consume')))) == 1 and not [c for c in pf.calls() if c.matches(cons) or c.matches(cbb)], 'pop_front', pf, None, 'pop_front = consume(1)',
             fail_detail='pop_front bypasses ConsumingIovec::consume')


def r4_4(cx):
    """Ok exactly when nothing is pending"""
    prog = cx.prog
    hp = prog.fn(OI + '::has_pending_backrefs')
    r = hp.local_expr(0, []).strip()
    cx.check(r.kind == 'unop' and r.op == 'Not' and is_call(r.a, SD + '::is_empty') and is_param_field(r.a.strip().args[0], 'backrefs'), 'has_pending', hp, None,
             'has_pending_backrefs = !backrefs.is_empty()', fail_detail='has_pending_backrefs is %s' % show(r)[:100])
    targets = [prog.fn(OI + '::iovs'), prog.fn(OI + '::flatten_into')] + [f for f in prog.fns.values() if f.name.endswith('TryFrom<owning_iovec::implementation::ConsumingIovec<\'a>>>::try_from')]
    cx.require(len(targets) == 3, 'expected iovs, flatten_into and TryFrom<ConsumingIovec> for StableIovec')
    for f in targets:
        for variant, want in (('Ok', False), ('Err', True)):
            sites = [p for p, e in agg_sites(f, variant=variant, local=0)]
            if not sites:
                # the result built in a spliced helper and moved into the return place: the aggregates the return
                # value can be, wherever they are assigned
                sites = [a.strip().pos for a in phi_alts(f.local_expr(0, [])) if a.strip().kind == 'agg' and a.strip().info.get('variant') == variant and a.strip().pos is not None]
            cx.count_sites()
            ok = len(sites) == 1 and any(val is want and is_call(e, hp) for e, val, ed in f.facts_at(sites[0].bb))
            cx.check(ok, '%s:%s' % (short(f.name)[-40:], variant), f, f.loc(sites[0].bb) if sites else None,
                     '%s only where has_pending_backrefs() is %s' % (variant, str(want).lower()),
                     fail_detail='%s of %s is not on the %s edge of has_pending_backrefs()' % (variant, short(f.name), str(want).lower()))


def r4_5(cx):
    """placeholder bookkeeping in register_patch / backfill_or_panic"""
    prog = cx.prog
    rp = prog.fn(OI + '::register_patch')
    pc = list(rp.calls(prog.fn(OI + '::push_copy')))
    pb = list(rp.calls(SD + '::push_back_or_panic'))
    cx.check(len(pc) == 1 and len(pb) == 1 and rp.escapes(pc[0].pos, avoid=[pb[0].pos]) is None, 'recorded-after-push', rp, None,
             'after pushing the pattern every path to return records the placeholder', fail_detail='a path pushes the pattern without recording the placeholder')
    if pc and pb:
        cx.check(pc[0].arg(1).strip().kind == 'param', 'pattern-pushed', rp, pc[0].loc(), 'push_copy(pattern)')
        item = pb[0].arg(1).strip()
        ok = item.kind == 'agg' and len(item.args) == 2
        info = None
        if ok:
            key, opt = item.args[0].strip(), item.args[1].strip()
            ok = key.has_call(GD + '::logical_size') and opt.kind == 'agg' and opt.info.get('variant') == 'Some'
            info = opt.args[0].strip() if ok else None
        cx.check(ok, 'key=logical-size', rp, pb[0].loc(), 'key = logical_size() after the push', fail_detail='recorded key is %s' % show(item)[:100])
        if info is not None and info.kind == 'agg':
            adt = prog.adt('implementation::BackrefInfo')
            fl = [f['n'] for f in adt['variants'][0]['fields']]
            si, bg, ln = (info.args[fl.index(n)].strip() for n in ('slice_index', 'begin', 'len'))
            cx.check(is_call(si, GD + '::last_logical_slice_index'), 'slice_index', rp, None, 'slice_index = last_logical_slice_index()', fail_detail='slice_index is %s' % show(si)[:80])
            # (the pattern length may come through NonZeroUsize::new(pattern.len()) .. .get())
            okb = bg.kind == 'binop' and bg.op == 'Sub' and bg.a.has_call(GD + '::last_slice') and \
                any(is_call(n, 'len') and n.args[0].strip().kind == 'param' and n.args[0].strip().info['i'] != 1 for n in bg.b.walk()) and \
                not any(n.kind == 'binop' for n in bg.b.walk()) and all(c.op.rsplit('::', 1)[-1] in ('len', 'get', 'new', 'unwrap', 'expect', 'branch', 'try_from', 'try_into', 'from', 'into') for c in bg.b.calls())
            cx.check(okb, 'begin', rp, None, 'begin = len(last_slice()) - pattern.len()', fail_detail='begin is %s' % show(bg)[:100])
            cx.check(any(is_call(n, 'len') and n.strip().args[0].strip().kind == 'param' for n in ln.walk()), 'len', rp, None, 'len = pattern.len()', fail_detail='len is %s' % show(ln)[:80])
            # all three reads happen after the push
            reads = [c for c in rp.calls() if c.matches(GD + '::last_logical_slice_index') or c.matches(GD + '::last_slice') or c.matches(GD + '::logical_size')]
            cx.check(all(rp.pos_dominates(pc[0].pos, c.pos) for c in reads) and len(reads) == 3, 'read-after-push', rp, None, 'index, length and size are read after the pattern was pushed',
                     fail_detail='bookkeeping values are read before the push')
    bf = prog.fn(OI + '::backfill_or_panic')
    cp = [cs for cs in bf.calls() if cs.callee.endswith('ptr::copy') or cs.callee.endswith('intrinsics::copy') or 'copy_nonoverlapping' in cs.callee]
    rm = list(bf.calls(SD + '::remove'))
    cx.require(len(cp) == 1 and len(rm) == 1, 'backfill_or_panic no longer has exactly one raw copy and one remove')
    c = cp[0]
    # argument validation must precede the removal: a panicking backfill must not un-pend the placeholder
    lenok = False
    for e, val, ed in bf.facts_at(rm[0].bb):
        x = e.strip()
        if val is True and x.kind == 'call' and x.op.endswith('::eq'):
            if any(n.kind == 'proj' and n.info.get('n') == 'len' for n in x.walk()) and any(n.kind == 'call' and n.op.endswith('::len') and n.args and n.args[0].strip().kind == 'param' for n in x.walk()):
                lenok = True
        rel = as_relation((e, val))
        if rel and rel[0] == 'Eq' and any(n.kind == 'proj' and n.info.get('n') == 'len' for n in rel[1].walk()) and is_call(rel[2], 'len'):
            lenok = True
    cx.check(lenok, 'validated-before-remove', bf, rm[0].loc(), 'info.len == src.len() is asserted before the entry is removed (a rejected backfill leaves the placeholder pending)',
             fail_detail='the placeholder is removed from the pending set before the length of the backfill is validated: a panicking backfill exposes the unfilled bytes')
    cx.check(bf.pos_dominates(rm[0].pos, c.pos), 'removed-first', bf, c.loc(), 'the entry is removed from backrefs before the bytes are written', fail_detail='raw copy not dominated by backrefs.remove')
    facts = bf.facts_at(c.bb)
    def whole_entry(e):
        # the comparison is between the removed entry as a whole and (key, Some(info)): not one component of it (an entry
        # with the same key from before a clear(), or from another iovec, would pass)
        c = e.strip()
        sides = [a.strip() for a in c.args]
        removed = [a for a in sides if any(x.pos == rm[0].pos for x in a.calls())]
        other = [a for a in sides if a not in removed]
        def is_whole(a):
            while a.kind == 'ref' or (a.kind == 'proj' and a.op == 'deref'):
                a = a.a.strip()
            return not (a.kind == 'proj' and a.op == 'field' and a.info.get('i') in (0, 1) and not any(n.kind == 'proj' and n.op == 'downcast' for n in [a.a.strip()]))
        return len(removed) == 1 and len(other) == 1 and is_whole(removed[0]) and \
            any(n.kind == 'agg' and n.info.get('variant') == 'Some' for n in other[0].walk())
    ident = any(val is True and e.strip().kind == 'call' and e.strip().op.endswith('::eq') and any(x.pos == rm[0].pos for x in e.calls()) and whole_entry(e)
                for e, val, ed in facts)
    cx.check(ident, 'identity-asserted', bf, c.loc(), 'the removed entry equals (logical_index, Some(info))', fail_detail='the removed entry is not compared with the Backref')
    bound = False
    for e, val, ed in facts:
        rel = as_relation((e, val))
        if rel and rel[0] == 'Le' and rel[1].strip().kind == 'binop' and rel[1].strip().op == 'Add' and any(n.kind == 'proj' and n.info.get('n') == 'begin' for n in rel[1].walk()) \
                and rel[2].has_call('ioslice_components'):
            bound = True
    cx.check(bound, 'bounds-asserted', bf, c.loc(), 'begin + src.len() <= len(target) asserted before the copy', fail_detail='no bounds assertion dominates the raw copy')
    dst = c.arg(1)
    okd = is_call(dst, 'add') and dst.strip().args[0].has_call(GD + '::get_logical_slice') and any(n.kind == 'proj' and n.info.get('n') == 'begin' for n in dst.strip().args[1].walk())
    gl = [x for x in dst.calls(GD + '::get_logical_slice')]
    okd = okd and gl and any(n.kind == 'proj' and n.info.get('n') == 'slice_index' for n in gl[0].args[1].walk())
    cx.check(okd, 'destination', bf, c.loc(), 'dst = base(get_logical_slice(info.slice_index)) + info.begin', fail_detail='the copy destination is %s' % show(dst)[:140])
    n = c.arg(2).strip()
    cx.check(is_call(n, 'len') and n.args[0].strip().kind == 'param', 'length', bf, c.loc(), 'copies src.len() bytes', fail_detail='copy length is %s' % show(n)[:60])


def r4_6(cx):
    """placeholders travel with the bytes they block: take / clear / literals never separate slices from backrefs"""
    prog = cx.prog
    from . import c20
    sub = cx.__class__(cx.prog, cx.profile, cx.prop)
    sub.rule = 'R20.4'
    c20.r20_4(sub)
    for rec in sub.records:
        rec = dict(rec)
        rec['instance'] = 'R20.4:' + rec['instance']
        rec['rule'] = cx.rule
        cx.records.append(rec)
    adt = prog.adt(OI)
    fl = [f['n'] for f in adt['variants'][0]['fields']]
    n = 0
    for f in prog.fns.values():
        if f.d.get('derived'):
            continue
        for pos, e in agg_sites(f, adt_key_suffix=adt['key']):
            n += 1
            cx.count_sites()
            sl, br = e.args[fl.index('slices')], e.args[fl.index('backrefs')]
            from_existing = any(n2.kind == 'proj' and n2.info.get('n') == 'slices' and 'OwningIovec' in (n2.info.get('adt') or '') for n2 in sl.walk())
            br_same = any(n2.kind == 'proj' and n2.info.get('n') == 'backrefs' for n2 in br.walk())
            cx.check((not from_existing) or br_same, 'literal:' + short(f.name), f, f.loc(pos.bb), 'an OwningIovec literal never takes the slices of an existing iovec without its pending placeholders',
                     fail_detail='%s builds an OwningIovec from another one\'s slices but not its backrefs: placeholders are left behind and the bytes they block become visible' % short(f.name))
    # whole-field replacement of slices / backrefs
    for f in prog.fns.values():
        if f.crate != 'owning_iovec' or f.d.get('derived'):
            continue
        for cs in f.calls():
            if cs.callee.endswith('mem::take') or cs.callee.endswith('mem::replace') or cs.callee.endswith('mem::swap'):
                a = cs.arg(0)
                touched = {n2.info.get('n') for n2 in a.walk() if n2.kind == 'proj' and n2.info.get('adt', '').endswith('implementation::OwningIovec')}
                if touched & {'slices', 'backrefs'}:
                    cx.fail('field-moved:' + short(f.name), f, cs.loc(), '%s moves %s out of an OwningIovec on its own' % (short(cs.callee), sorted(touched)))
    cx.check(n >= 1, 'literals-examined', None, 'owning_iovec/src/implementation.rs', '%d OwningIovec literal(s) examined' % n)


def r4_7(cx):
    """logical slice indices stay valid under front consumption: the deque's counters move with it (R3.2)"""
    from . import c03
    sub = cx.__class__(cx.prog, cx.profile, cx.prop)
    sub.rule = 'R3.2'
    c03.r3_2(sub)
    for rec in sub.records:
        rec = dict(rec)
        rec['instance'] = 'R3.2:' + rec['instance']
        rec['rule'] = cx.rule
        cx.records.append(rec)


def r4_8(cx):
    """what the pending set stands on: the sliding deque under both deques (R15.1-R15.6), the tombstoned ordered map of placeholders (R16.1-R16.4), memberwise clones (R20.3), offsets never truncated (R3.5)"""
    from . import c16, c20, c03
    from . import c15
    compose(cx, [('R15.1', c15.r15_1), ('R15.2', c15.r15_2), ('R15.3', c15.r15_3), ('R15.4', c15.r15_4), ('R15.5', c15.r15_5), ('R15.6', c15.r15_6), ('R15.7', c15.r15_7), ('R15.8', c15.r15_8),
                 ('R16.1', c16.r16_1), ('R16.2', c16.r16_2), ('R16.3', c16.r16_3), ('R16.4', c16.r16_4), ('R20.3', c20.r20_3), ('R3.5', c03.r3_5)])


RULES = [('R4.1', r4_1), ('R4.2', r4_2), ('R4.3', r4_3), ('R4.4', r4_4), ('R4.5', r4_5), ('R4.6', r4_6), ('R4.7', r4_7), ('R4.8', r4_8)]
RULES.append(('R4.9', scan_rule(('owning_iovec::implementation::', 'owning_iovec::global_deque::'))))
FLOORS['R4.9'] = 1
