"""C10 — arena memory is reclaimed: leak-primitive inventory, live counters, acyclic ownership, replacement of
caches, reset per record."""
from .oiv import *  # noqa: F401,F403
from engine.woodlint.db import Pos, as_relation, show

PROPERTY = 'C10'

EXPLANATION = """
Static analysis of the ownership of arena chunks.  In safe Rust a value that is no longer reachable is leaked
only through a forget-like primitive or a reference-count cycle (process exit, a panic inside drop and threads
that never finish are outside "once all of those objects are dropped").  So the first sentence of the property
is a finite inventory, decided here: (R10.1) forget-like primitives (mem::forget, ManuallyDrop, Box::leak,
Box/Arc/Rc::into_raw, Vec::leak, Rc) occur in the workspace exactly once — Box::leak in Chunk::new — paired
with exactly one Box::from_raw in <Chunk as Drop>::drop on the same field; (R10.2) NUM_LIVE_CHUNKS /
NUM_LIVE_BYTES are incremented only in Chunk::new (by 1 and by the length of the boxed storage) and decremented
only in Chunk::drop (by 1 and by the length of the re-boxed storage), after the Box is freed; (R10.3) ownership
is acyclic: Chunk owns only its raw storage (no Arc/Rc/Box<dyn>/Anchor/AllocCache/Chunk inside), so no cycle
can pass through Arc<Chunk>; (R10.4) no static or thread-local of owning_iovec / hcobs can hold a chunk owner
(only the two counters), and Chunk::new is called only from AllocCache::new; (R10.5) a new cache replaces the
old one: in ensure_capacity_internal `self.cache = None` dominates AllocCache::new and the new cache is stored
in self.cache; flush_cache drops the cache; (R10.6) streaming mechanisms: GlobalDeque::consume pops every
exhausted anchor and every zero-count anchor at the front (exit only at count > 0 or empty), StreamReader
clears its iovec at the head of every retry, empty anchored input returns before push_anchor (no useless
anchors accumulate).
NOT decided: the bound on live bytes while streaming (depends on anchor counts and the consumer: runtime).
"""

ASSUMPTIONS = ['Arc/Box free their contents on the last drop', 'no Rc/RefCell cycle can be built from types that own no reference-counted pointer']

FLOORS = {'R10.1': 3, 'R10.2': 5, 'R10.3': 2, 'R10.4': 3, 'R10.5': 3, 'R10.6': 20}

CRATES = ['owning_iovec', 'hcobs', 'rough_tlv', 'sliding_deque', 'vouched_time']
LEAKY = ('mem::forget', 'ManuallyDrop', 'Box::leak', 'Box::into_raw', 'Arc::into_raw', 'Rc::into_raw', 'Vec::leak', 'Vec::into_raw_parts', 'Arc::increment_strong_count',
         'String::leak', 'Box::into_non_null', 'mem::transmute_copy')


def _leak_sites(prog):
    out = []
    for f in prog.fns.values():
        if f.crate not in CRATES:
            continue
        for cs in f.calls():
            if cs.t.get('exp'):
                continue
            if any(w in cs.callee for w in LEAKY) or cs.callee.startswith('std::rc::') or '::Rc<' in cs.callee:
                out.append(cs)
    return out


def r10_1(cx):
    """the only forget-like primitive is Box::leak in Chunk::new, undone by Box::from_raw in Chunk::drop"""
    prog = cx.prog
    sites = _leak_sites(prog)
    names = sorted('%s in %s' % (short(c.callee), short(c.fn.name)) for c in sites)
    cx.check(len(sites) == 1 and sites[0].callee.endswith('Box::leak') and sites[0].fn.name == CH + '::new', 'leak-inventory', None, 'workspace',
             'the only forget-like call in the workspace is Box::leak in Chunk::new', fail_detail='forget-like primitives: %s' % names)
    bad_ty = []
    for a in prog.adts.values():
        if a['crate'] in CRATES:
            for v in a['variants']:
                for fl in v['fields']:
                    if 'ManuallyDrop' in fl['ty'] or 'std::rc::Rc' in fl['ty'] or 'rc::Weak' in fl['ty']:
                        bad_ty.append('%s.%s: %s' % (a['name'], fl['n'], fl['ty']))
    cx.check(not bad_ty, 'no-manuallydrop-fields', None, 'workspace', 'no field of type ManuallyDrop / Rc', fail_detail='fields that can defeat drop: %s' % bad_ty)
    dr = prog.fn('<owning_iovec::byte_arena::anchor::Chunk as std::ops::Drop>::drop')
    fr = list(dr.calls('Box::from_raw'))
    nw = prog.fn(CH + '::new')
    okp = len(fr) == 1 and rooted_in_param_field(fr[0].arg(0), 'storage') and dr.escapes(Pos(0, -1), avoid=[fr[0].pos]) is None
    st = nw.local_expr(0, []).strip()
    okp = okp and st.kind == 'agg' and st.args and st.args[0].has_call('Box::leak')
    cx.check(okp, 'leak-paired', dr, fr[0].loc() if fr else None, 'Chunk.storage = Box::leak(..) in new; Box::from_raw(self.storage) on every path of drop',
             fail_detail='the leaked box is not reconstructed on every path of Chunk::drop')
    dropped = [b for b in dr.live_blocks() if dr.term(b)['k'] == 'drop' and 'Box<' in (dr.term(b).get('ty') or '')] + [cs for cs in dr.calls('mem::drop')]
    cx.check(bool(dropped), 'box-dropped', dr, None, 'the reconstructed Box is dropped in Chunk::drop', fail_detail='the reconstructed Box is never dropped')


def _counter_calls(prog, op):
    out = []
    for f in prog.fns.values():
        if f.crate != 'owning_iovec':
            continue
        for cs in f.calls():
            if cs.callee.endswith('::' + op) and 'atomic' in cs.callee:
                a = cs.arg(0).strip()
                st = [k for k in a.consts() if k.info.get('staticp')]
                if st:
                    out.append((cs, st[0].info['staticp'].rsplit('::', 1)[-1]))
    return out


def r10_2(cx):
    """live counters: +1 / +len in Chunk::new, -1 / -len in Chunk::drop only"""
    prog = cx.prog
    adds, subs = _counter_calls(prog, 'fetch_add'), _counter_calls(prog, 'fetch_sub')
    cx.check(sorted((c.fn.name, s) for c, s in adds) == sorted([(CH + '::new', 'NUM_LIVE_CHUNKS'), (CH + '::new', 'NUM_LIVE_BYTES')]), 'increments', None, 'owning_iovec/src/byte_arena/anchor.rs',
             'counters are incremented only in Chunk::new', fail_detail='fetch_add sites: %s' % sorted((short(c.fn.name), s) for c, s in adds))
    drn = '<owning_iovec::byte_arena::anchor::Chunk as std::ops::Drop>::drop'
    cx.check(sorted((c.fn.name, s) for c, s in subs) == sorted([(drn, 'NUM_LIVE_CHUNKS'), (drn, 'NUM_LIVE_BYTES')]), 'decrements', None, 'owning_iovec/src/byte_arena/anchor.rs',
             'counters are decremented only in Chunk::drop', fail_detail='fetch_sub sites: %s' % sorted((short(c.fn.name), s) for c, s in subs))
    for c, s in adds + subs:
        cx.count_sites()
        amt = c.arg(1).strip()
        if s == 'NUM_LIVE_CHUNKS':
            cx.check(amt.is_const_int(1), 'amount:%s:%s' % (s, short(c.callee)), c.fn, c.loc(), 'by 1', fail_detail='chunk counter changed by %s' % show(amt)[:60])
        else:
            ok = is_call(amt, 'len') and (any(n.kind == 'param' for n in amt.args[0].walk()) or amt.args[0].has_call('Box::from_raw'))
            cx.check(ok, 'amount:%s:%s' % (s, short(c.callee)), c.fn, c.loc(), 'by the length of the (re)boxed storage', fail_detail='byte counter changed by %s' % show(amt)[:80])
    other = []
    for f in prog.fns.values():
        for cs in f.calls():
            a = [k for x in cs.args() for k in x.consts() if (k.info.get('staticp') or '').endswith(('NUM_LIVE_CHUNKS', 'NUM_LIVE_BYTES'))]
            if a and not (cs.callee.endswith('::fetch_add') or cs.callee.endswith('::fetch_sub') or cs.callee.endswith('::load')):
                other.append('%s in %s' % (short(cs.callee), short(f.name)))
    cx.check(not other, 'no-other-writes', None, 'owning_iovec', 'the counters are otherwise only loaded', fail_detail='other counter accesses: %s' % other)


def r10_3(cx):
    """ownership is acyclic: a Chunk owns nothing reference-counted"""
    prog = cx.prog
    ch = prog.adt(CH)
    tys = [(f['n'], f['ty']) for f in ch['variants'][0]['fields']]
    bad = [t for t in tys if any(w in t[1] for w in ('Arc<', 'Rc<', 'Box<', 'Anchor', 'AllocCache', 'Chunk', 'Vec<', 'dyn '))]
    cx.check(len(tys) == 1 and not bad and 'NonNull<[std::mem::MaybeUninit<u8>]>' in tys[0][1], 'chunk-owns-bytes-only', None, '%s:%s' % (ch['file'], ch['line']),
             'Chunk { storage: NonNull<[MaybeUninit<u8>]> } owns only raw bytes', fail_detail='Chunk fields %s can own reference-counted data (cycle possible)' % tys)
    an = prog.adt(AN)
    at = [(f['n'], f['ty']) for f in an['variants'][0]['fields']]
    ok = all(('Arc<' not in t) or ('Chunk' in t) for n, t in at) and not any('Rc<' in t or 'Box<' in t for n, t in at)
    cx.check(ok, 'anchor-owns-chunk-only', None, '%s:%s' % (an['file'], an['line']), 'an Anchor owns at most an Arc<Chunk>', fail_detail='Anchor fields: %s' % at)


def r10_4(cx):
    """no static can hold a chunk owner; chunks are created only by AllocCache::new"""
    prog = cx.prog
    st = [c for c in prog.consts.values() if c['crate'] in ('owning_iovec', 'hcobs') and c['kind'].startswith('Static')]
    names = sorted((c['name'].rsplit('::', 1)[-1], c['ty']) for c in st)
    ok = all('Atomic<usize>' in t or 'AtomicUsize' in t for n, t in names) and len(names) == 2
    cx.check(ok, 'statics', None, 'owning_iovec', 'the only statics are the two usize counters', fail_detail='statics in owning_iovec/hcobs: %s' % names)
    tls = [f.name for f in prog.fns.values() if f.crate in ('owning_iovec', 'hcobs') and '__rust_std_internal' in f.name.lower()]
    cx.check(not tls, 'no-thread-local', None, 'owning_iovec', 'no thread_local! in owning_iovec / hcobs', fail_detail='thread locals: %s' % tls)
    nw = prog.fn(CH + '::new')
    callers = sorted({cs.fn.name for cs in prog.callers_of(nw.name) if cs.matches(nw)})
    cx.check(callers == [AC + '::new'], 'chunk-creator', nw, None, 'Chunk::new is called only from AllocCache::new', fail_detail='Chunk::new called from %s' % callers)
    acn = prog.fn(AC + '::new')
    callers = sorted({cs.fn.name for cs in prog.callers_of(acn.name) if cs.matches(acn)})
    cx.check(callers == [BA + '::ensure_capacity_internal'], 'cache-creator', acn, None, 'AllocCache::new is called only from ensure_capacity_internal', fail_detail='AllocCache::new called from %s' % callers)


def r10_5(cx):
    """a new cache replaces the old one"""
    prog = cx.prog
    f = prog.fn(BA + '::ensure_capacity_internal')
    nw = list(f.calls(prog.fn(AC + '::new')))
    cx.require(len(nw) == 1, 'ensure_capacity_internal no longer creates exactly one cache')
    clears = [pos for pos, pl, rv in f.stores() if pl['p'] and pl['p'][-1].get('n') == 'cache' and rv is not None and
              f.rvalue_expr(rv).strip().kind == 'agg' and f.rvalue_expr(rv).strip().info.get('variant') == 'None']
    ok = any(f.pos_dominates(p, nw[0].pos) for p in clears)
    cx.check(ok, 'old-dropped-first', f, nw[0].loc(), 'self.cache = None dominates AllocCache::new (the old chunk reference is released before the new one exists)',
             fail_detail='a new cache is created while the old one is still held')
    ins = [cs for cs in f.calls('Option::insert') if rooted_in_param_field(cs.arg(0), 'cache')]
    ok2 = len(ins) == 1 and any(c.pos == nw[0].pos for c in ins[0].arg(1).calls())
    cx.check(ok2, 'new-stored', f, ins[0].loc() if ins else None, 'the new cache is stored in self.cache (replace, not accumulate)', fail_detail='the new cache is not stored in self.cache')
    fl = prog.fn(BA + '::flush_cache')
    okf = any(pl['p'] and pl['p'][-1].get('n') == 'cache' and rv is not None and fl.rvalue_expr(rv).strip().info.get('variant') == 'None' for pos, pl, rv in fl.stores())
    cx.check(okf, 'flush', fl, None, 'flush_cache sets self.cache = None', fail_detail='flush_cache does not drop the cache')


def zero_count_loop(cx):
    """the trailing loop of GlobalDeque::consume pops front anchors until one has count > 0 or none is left"""
    prog = cx.prog
    f = prog.fn(GD + '::consume')
    # second loop: exit only when front is None or count > 0
    heads = f.loop_headers()
    pops = [cs for cs in f.calls('VecDeque::pop_front')]
    ok = False
    for h in heads:
        body = f.loop_blocks(h)
        inl = [cs for cs in pops if cs.bb in body]
        fr = [cs for cs in f.calls('VecDeque::front') if cs.bb in body]
        if inl and fr:
            exits = []
            for b in body:
                if f.term(b)['k'] != 'switch':
                    continue
                for s in f.succs()[b]:
                    if s not in body:
                        exits.append((b, s))
            good = 0
            for (b, s) in exits:
                for e, v in [(x[0], x[1]) for x in f.edge_facts(b, s)]:
                    rel = as_relation((e, v))
                    if rel and (rel[0] == 'Gt' or rel[0] == 'Ne') and is_call(rel[1], AN + '::count') and rel[2].is_const_int(0):
                        good += 1
                    if e.kind == 'discr' and is_call(e.a, 'VecDeque::front') and v != ('in', frozenset([1])):
                        good += 1
                    if v is False and e.strip().kind == 'call' and e.strip().op.endswith('is_some_and') and is_call(e.strip().args[0], 'VecDeque::front'):
                        # while front().is_some_and(|a| a.count() == 0): leaving means None or count != 0
                        from engine.woodlint.db import closure_predicate_facts
                        pf = [as_relation(x) for x in closure_predicate_facts(prog, e)]
                        if any(r and (r[0] == 'Eq' or r[0] == 'Le') and is_call(r[1], AN + '::count') and r[2].is_const_int(0) for r in pf):
                            good += 1
            ok = good == len(exits) and len(exits) in (1, 2)
    cx.check(ok, 'zero-count-anchors-popped', f, None, 'the trailing loop pops front anchors until one has count > 0 or none is left', fail_detail='zero-count anchors can stay at the front (their chunks are never released)')


def r10_6(cx):
    """streaming: exhausted and zero-count anchors are popped; per-record reset; no useless anchors"""
    zero_count_loop(cx)
    prog = cx.prog
    from . import c06, c05
    sub = cx.__class__(cx.prog, cx.profile, cx.prop)
    sub.rule = 'R6.3'
    c06.r6_3(sub)
    sub.rule = 'R6.2'   # a record being skipped is not accumulated in the reader's decoder
    c06.r6_2(sub)
    sub.rule = 'R5.7'
    c05.r5_7(sub)
    for rec in sub.records:
        rec = dict(rec)
        rec['instance'] = rec['rule'] + ':' + rec['instance']
        rec['rule'] = cx.rule
        cx.records.append(rec)
    for fname in ('hcobs::Encoder::encode_anchored', 'hcobs::Decoder::decode_anchored'):
        g = prog.fn(fname)
        pa = list(g.calls(prog.fn(OI + '::push_anchor')))
        okk = False
        for b in g.live_blocks():
            be = g.bool_edges(b)
            e = g.switch_expr(b) if be else None
            if e is not None and is_call(e, 'is_empty') and e.has_call(AS + '::components'):
                okk = bool(pa) and pa[0].bb not in g.reachable(be[1])
        cx.check(okk, 'empty-input-no-anchor:' + short(fname), g, None, 'empty anchored input returns before push_anchor', fail_detail='an empty anchored input still queues an anchor')


RULES = [('R10.1', r10_1), ('R10.2', r10_2), ('R10.3', r10_3), ('R10.4', r10_4), ('R10.5', r10_5), ('R10.6', r10_6)]
RULES.append(('R10.7', scan_rule(('owning_iovec::byte_arena::', 'owning_iovec::global_deque::'))))
FLOORS['R10.7'] = 1
