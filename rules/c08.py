"""C08 — StreamChunker: refill progress, offset accounting, non-empty Data / honest Eof, split position."""
from .util import *  # noqa: F401,F403
from engine.woodlint.db import Pos, as_relation, show

PROPERTY = 'C08'

EXPLANATION = """
Static analysis of hcobs::stream_reader::StreamChunker::pump (MIR).  Decided: (R8.1) the refill loop makes
progress: its guard is `buf.len() < K` and the count handed to ByteArena::read_n has a provable lower bound
>= K (so it always exceeds the at most K-1 carried-over bytes, which are re-read first through
carried.chain(reader)), read_n may retry without bound (attempts = usize::MAX), "no progress" is tested as
new_len == carried_len and only that edge leaves the loop with Eof/Data — this is the rule that finds defect
F1 (block sizes 0 and 1); (R8.2) offset accounting: every returned Sentinel/Data is preceded by exactly one
update of self.offset by the length of what is emitted (the constant of skip_prefix(k) equals the increment
and STUFF_SEQUENCE.len(); for Data the increment is the length of the very slice returned) and the reported
offset is read after that update; offset is written nowhere else; (R8.3) Data is built only where the slice
is known non-empty (the !is_empty edge, resp. the assert_ne!(split_pos, 0) edge) and Eof only where the
refill returned an empty buffer with nothing carried; (R8.4) split_pos is the find_stuff_sequence result when
Some, len-1 exactly on the edge last == STUFF_SEQUENCE[0], otherwise len, the Sentinel test compares the first
two bytes with STUFF_SEQUENCE, and what is kept for the next call is the tail of that split.
NOT decided: tiling as an equality of concatenations over all streams and read schedules (value-level).
(R8.5 = R17.1-R17.3, R5.4) read_n fills a block through short reads / EINTR and clears a stale error at end
of stream; both halves of AnchoredSlice::split_at carry a clone of the anchor, so emitted Data slices keep
their bytes alive whatever the arena does next.
"""

ASSUMPTIONS = ['ByteArena::read_n semantics (C17)']

FLOORS = {'R8.1': 8, 'R8.2': 4, 'R8.3': 3, 'R8.4': 5, 'R8.5': 1}

PUMP = 'hcobs::stream_reader::StreamChunker::pump'
ASLICE = 'byte_arena::AnchoredSlice'


def lower_bound(e):
    e = e.strip()
    if e.kind == 'const' and e.info.get('int') is not None:
        return e.info['int']
    if e.kind == 'call':
        last = e.op.rsplit('::', 1)[-1]
        if last == 'max' and len(e.args) == 2:
            return max(lower_bound(e.args[0]), lower_bound(e.args[1]))
        if last == 'min' and len(e.args) == 2:
            return min(lower_bound(e.args[0]), lower_bound(e.args[1]))
        if last in ('saturating_add',) and len(e.args) == 2:
            return lower_bound(e.args[0]) + lower_bound(e.args[1])
        return 0
    if e.kind == 'binop' and e.op == 'Add':
        return lower_bound(e.a) + lower_bound(e.b)
    if e.kind == 'phi':
        return min(lower_bound(a) for a in e.args)
    return 0


def is_buf_len(e, via_self=True):
    """<[T]>::len(AnchoredSlice::slice(&self.buf))"""
    e = e.strip()
    if not is_call(e, 'len'):
        return False
    s = e.args[0].strip()
    return is_call(s, ASLICE + '::slice') and is_param_field(s.args[0], 'buf')


def chunk_sites(fn):
    out = []
    for pos, st in fn.statements():
        if st['k'] == 'assign' and st['rv']['k'] == 'agg' and st['rv']['name'].endswith('stream_reader::Chunk'):
            out.append((pos, st['rv']['variant'], fn.rvalue_expr(st['rv'])))
    return out


def offset_stores(fn):
    out = []
    for pos, pl, rv in fn.stores():
        p = pl['p']
        if len(p) == 2 and p[1]['k'] == 'field' and p[1]['n'] == 'offset' and rv is not None:
            out.append((pos, fn.rvalue_expr(rv).strip()))
    return out


def r8_1(cx):
    """refill makes progress: requested count >= K of the loop guard `buf.len() < K`"""
    fn = cx.prog.fn(PUMP)
    reads = list(fn.calls('ByteArena::read_n'))
    cx.require(len(reads) == 1, 'pump no longer calls ByteArena::read_n exactly once')
    rd = reads[0]
    heads = [h for h in fn.loop_headers() if rd.bb in fn.loop_blocks(h)]
    cx.check(len(heads) == 1, 'refill-loop', fn, rd.loc(), 'the refill is inside one loop', fail_detail='read_n is in %d loops' % len(heads))
    if len(heads) != 1:
        return
    body = fn.loop_blocks(heads[0])
    K = None
    for e, val, edge in fn.facts_at(rd.bb):
        rel = as_relation((e, val))
        if rel and rel[0] == 'Lt' and is_buf_len(rel[1]) and rel[2].const_int() is not None and edge[0] in body:
            K = rel[2].const_int()
        if rel and rel[0] == 'Le' and is_buf_len(rel[1]) and rel[2].const_int() is not None and edge[0] in body:
            K = rel[2].const_int() + 1
    cx.check(K is not None, 'loop-guard', fn, rd.loc(), 'refill only while buf.len() < %s' % K, fail_detail='the refill is not guarded by buf.len() < K')
    if K is None:
        return
    # what is left in the buffer when the stream ends (fewer than K bytes) is handed out without being looked at:
    # it must be too short to hold a stuff sequence
    seqlen = len(cx.prog.const_bytes('hcobs::STUFF_SEQUENCE'))
    cx.check(K <= seqlen, 'carry-shorter-than-sentinel', fn, rd.loc(), 'the refill loop runs while fewer than %d bytes are buffered: the end-of-stream leftover (< %d bytes) cannot hold FE FD' % (K, seqlen),
             fail_detail='the refill loop runs while buf.len() < %d: at end of stream up to %d buffered bytes are emitted as Data unexamined, enough to hide a whole stuff sequence' % (K, K - 1))
    cnt = rd.arg(2)
    lb = lower_bound(cnt)
    cx.count_sites()
    cx.check(lb >= K, 'progress', fn, rd.loc(), 'requested count %s has lower bound %d >= %d > carried length (<= %d)' % (show(cnt), lb, K, K - 1),
             fail_detail='the count requested from read_n, %s, can be as low as %d while %d byte(s) may already be carried over and are re-read first: '
             'the request can never exceed what is buffered, "no progress" is then mistaken for Eof (every byte becomes a 1-byte Data chunk and no Sentinel is reported)'
             % (show(cnt), lb, K - 1))
    att = rd.arg(3).strip()
    cx.check(att.kind == 'const' and att.info.get('int') == 2**64 - 1, 'unbounded-attempts', fn, rd.loc(),
             'read_n may retry until count bytes or EOF (attempts = usize::MAX)', fail_detail='read_n attempts = %s: short reads can end the refill early' % show(att))
    src = rd.arg(1).strip()
    ok_src = is_call(src, 'Read::chain') and src.args[0].has_call(ASLICE + '::take') and any(a.strip().kind == 'param' for a in src.args[1].walk())
    cx.check(ok_src, 'carried-first', fn, rd.loc(), 'source = carried.chain(reader)', fail_detail='the refill source is %s' % show(src)[:120])
    # no-progress test
    prog_edge = None
    for b in sorted(body):
        be = fn.bool_edges(b)
        if be is None:
            continue
        rel = as_relation((fn.switch_expr(b), True))
        if rel and str(rel[0]) in ('Eq', 'Ne'):
            op, a, c = rel
            a, c = a.strip(), c.strip()
            for x, y in ((a, c), (c, a)):
                if is_call(x, 'len') and x.has_call('ByteArena::read_n') and is_call(y, 'len') and y.has_call(ASLICE + '::take') and not y.has_call('ByteArena::read_n'):
                    # (`new != carried { keep going }` is the same test with the arms exchanged)
                    prog_edge = (b, be[1], be[0]) if op == 'Eq' else (b, be[0], be[1])
    cx.check(prog_edge is not None, 'no-progress-test', fn, None, 'no progress <=> new.len() == carried.len()',
             fail_detail='no comparison of the refilled length with the carried length')
    if prog_edge:
        b, eq_t, ne_t = prog_edge
        leaves = not any(x in body for x in fn.reachable(eq_t, cut_blocks=[heads[0]]) if x != eq_t and x in body and heads[0] in fn.reachable(x)) or heads[0] not in fn.reachable(eq_t)
        cx.check(heads[0] not in fn.reachable(eq_t), 'no-progress-leaves', fn, fn.loc(b), 'the no-progress edge leaves the loop (Eof / final Data)',
                 fail_detail='the loop can spin without progress')
        stores = [pos for pos, pl, rv in fn.stores() if len(pl['p']) == 2 and pl['p'][1].get('n') == 'buf' and pos.bb in fn.reachable(ne_t, cut_blocks=[heads[0]])]
        cx.check(bool(stores), 'progress-kept', fn, fn.loc(b), 'on progress the refilled buffer becomes self.buf', fail_detail='the refilled buffer is dropped')


def r8_2(cx):
    """offset accounting: one update per emitted chunk, by exactly the emitted length, reported after the update"""
    fn = cx.prog.fn(PUMP)
    sites = chunk_sites(fn)
    stores = offset_stores(fn)
    seq_len = len(cx.prog.const_bytes('hcobs::STUFF_SEQUENCE'))
    emitting = [s for s in sites if s[1] in ('Data', 'Sentinel')]
    cx.check(len(stores) == len(emitting), 'one-update-per-chunk', fn, None, '%d offset updates for %d Data/Sentinel sites' % (len(stores), len(emitting)),
             fail_detail='%d writes of self.offset for %d emitting sites' % (len(stores), len(emitting)))
    for pos, variant, e in sites:
        if variant == 'Eof':
            continue
        cx.count_sites()
        inst = '%s@%s' % (variant, _ordinal(sites, pos, variant))
        e = e.strip()
        if variant == 'Sentinel':
            off = e.args[0].strip()
            dom = [(p, v) for p, v in stores if fn.pos_dominates(p, pos) and not any(fn.pos_dominates(p, p2) and fn.pos_dominates(p2, pos) and p2 != p for p2, _ in stores)]
            ok = len(dom) == 1
            if ok:
                p, v = dom[0]
                inc = int_or_const_len(cx.prog, v.b) if v.kind == 'binop' and v.op == 'Add' and is_param_field(v.a, 'offset') else None
                skips = [cs for cs in fn.calls(ASLICE + '::skip_prefix') if fn.pos_dominates(cs.pos, pos)]
                k = int_or_const_len(cx.prog, skips[0].arg(1)) if len(skips) == 1 else None
                after = is_param_field(off, 'offset') and off.pos is not None and fn.pos_dominates(p, off.pos)
                ok = inc == seq_len and k == seq_len and after and is_param_field(skips[0].arg(0).a if skips[0].arg(0).kind == 'ref' else skips[0].arg(0), 'buf')
                cx.check(ok, inst, fn, fn.loc(pos.bb, pos.idx), 'offset += %s; skip_prefix(%s); Sentinel(offset)' % (inc, k),
                         fail_detail='Sentinel: offset increment %s, skip_prefix %s, STUFF_SEQUENCE.len() %d, offset read after update: %s' % (inc, k, seq_len, after))
            else:
                cx.fail(inst, fn, fn.loc(pos.bb, pos.idx), 'Sentinel is not preceded by exactly one offset update on its path')
        else:
            tup = e.args[0].strip()
            off, sl = tup.args[0].strip(), tup.args[1].strip()
            dom = [(p, v) for p, v in stores if fn.pos_dominates(p, pos)]
            dom = [d for d in dom if not any(fn.pos_dominates(d[0], p2) and p2 != d[0] for p2, _ in dom)]
            ok = len(dom) == 1
            detail = ''
            if ok:
                p, v = dom[0]
                ok = v.kind == 'binop' and v.op == 'Add' and is_param_field(v.a, 'offset')
                inc = v.b.strip() if ok else None
                same = ok and is_call(inc, 'len') and is_call(inc.args[0], ASLICE + '::slice') and show(inc.args[0].strip().args[0].strip()) == show(sl)
                after = is_param_field(off, 'offset') and off.pos is not None and fn.pos_dominates(p, off.pos)
                detail = 'increment %s, returned slice %s' % (show(inc)[:90] if inc is not None else None, show(sl)[:60])
                ok = ok and same and after
            cx.check(ok, inst, fn, fn.loc(pos.bb, pos.idx), 'offset += len(returned slice); Data((offset, slice))',
                     fail_detail='Data: the offset is not advanced by exactly the length of the returned slice before being reported (%s)' % detail)


def _ordinal(sites, pos, variant):
    same = [p for p, v, _ in sites if v == variant]
    return same.index(pos)


def r8_3(cx):
    """Data is never empty; Eof only when the refill returned nothing and nothing was carried"""
    fn = cx.prog.fn(PUMP)
    sites = chunk_sites(fn)
    for pos, variant, e in sites:
        if variant == 'Sentinel':
            continue
        cx.count_sites()
        facts = fn.facts_at(pos.bb)
        inst = '%s@%s' % (variant, _ordinal(sites, pos, variant))
        if variant == 'Data':
            sl = e.strip().args[0].strip().args[1].strip()
            ok = False
            why = ''
            for f, val, edge in facts:
                if val is False and is_call(f, 'is_empty') and is_call(f.strip().args[0], ASLICE + '::slice') and \
                        show(f.strip().args[0].strip().args[0].strip()) == show(sl):
                    ok, why = True, '!slice.is_empty()'
                rel = as_relation((f, val))
                if rel and rel[0] == 'Ne' and (rel[1].is_const_int(0) or rel[2].is_const_int(0) or
                                               any(c.info.get('ref_bytes') == '0000000000000000' for c in (rel[1].strip(), rel[2].strip()) if c.kind == 'const')):
                    other = rel[2] if (rel[1].is_const_int(0) or rel[1].strip().kind == 'const') else rel[1]
                    # `slice.len() != 0` is `!slice.is_empty()`
                    if is_call(other, 'len') and is_call(other.strip().args[0], ASLICE + '::slice') and \
                            show(other.strip().args[0].strip().args[0].strip()) == show(sl):
                        ok, why = True, 'slice.len() != 0'
                    if is_call(sl, 'split_at') or (sl.kind == 'proj' and sl.has_call(ASLICE + '::split_at')):
                        sp = [c for c in sl.calls(ASLICE + '::split_at')][0]
                        if show(sp.args[1].strip()) == show(other.strip()):
                            ok, why = True, 'split_pos != 0 asserted and the slice is split_at(split_pos).0'
            cx.check(ok, inst, fn, fn.loc(pos.bb, pos.idx), 'Data only where %s' % why, fail_detail='a Data chunk can be empty: no non-emptiness fact dominates it')
        else:
            empty = any(val is True and is_call(f, 'is_empty') and f.has_call('ByteArena::read_n') for f, val, edge in facts)
            noprog = False
            for f, val, edge in facts:
                rel = as_relation((f, val))
                if rel and rel[0] == 'Eq' and is_call(rel[1], 'len') and is_call(rel[2], 'len'):
                    noprog = True
                # `len() == 0` is `is_empty()`
                if rel and rel[0] == 'Eq' and rel[2].is_const_int(0) and is_call(rel[1], 'len') and rel[1].has_call('ByteArena::read_n'):
                    empty = True
            cx.check(empty and noprog, inst, fn, fn.loc(pos.bb, pos.idx), 'Eof only where the refill made no progress and the buffer is empty',
                     fail_detail='Eof can be returned while bytes are still buffered (empty: %s, no-progress: %s)' % (empty, noprog))


def r8_4(cx):
    """split position: find result | len-1 on a trailing FE | len; Sentinel test on the first two bytes; tail kept"""
    fn = cx.prog.fn(PUMP)
    sp = list(fn.calls(ASLICE + '::split_at'))
    cx.require(len(sp) == 1, 'pump no longer has exactly one split_at')
    s = sp[0]
    alts = phi_alts(s.arg(1))
    kinds = {}
    for a in alts:
        a = a.strip()
        if a.kind == 'proj' and a.has_call('find_stuff_sequence') and is_buf_len_arg(a):
            kinds['find'] = a
        elif a.kind == 'binop' and a.op == 'Sub' and is_buf_len(a.a) and a.b.is_const_int(1):
            kinds['len-1'] = a
        elif is_buf_len(a):
            kinds['len'] = a
        elif a.kind == 'binop' and a.op == 'Sub' and is_buf_len(a.a) and _trailing_flag(cx, a.b) is not None:
            # len - usize::from(last == STUFF_SEQUENCE[0]): both alternatives in one expression
            kinds['len-flag'] = a
        else:
            kinds['other:' + show(a)[:50]] = a
    cx.check(set(kinds) in ({'find', 'len-1', 'len'}, {'find', 'len-flag'}), 'alternatives', fn, s.loc(), 'split_pos in {find_stuff_sequence(buf), len-1, len}',
             fail_detail='split_pos alternatives are %s' % sorted(kinds))
    # guards of the len-1 / len alternatives
    g = {}
    for b in sorted(fn.live_blocks()):
        be = fn.bool_edges(b)
        if be is None:
            continue
        rel = as_relation((fn.switch_expr(b), True))
        if rel and rel[0] == 'Eq':
            for x, y in ((rel[1].strip(), rel[2].strip()), (rel[2].strip(), rel[1].strip())):
                # (`last() == Some(&STUFF_SEQUENCE[0])` is `*last().unwrap() == STUFF_SEQUENCE[0]` on a non-empty buffer)
                if y.kind == 'agg' and y.info.get('variant') == 'Some' and len(y.args) == 1 and is_call(x, 'last'):
                    y = y.args[0].strip()
                # ... where rustc promotes `Some(&STUFF_SEQUENCE[0])` to one constant: recognised by the byte it points to
                if y.kind == 'const' and 'Option<&u8>' in str(y.info.get('ty', '')) and is_call(x, 'last') and \
                        (y.info.get('ptr_to_bytes') or '')[:2] == cx.prog.const_bytes('hcobs::STUFF_SEQUENCE').hex()[:2]:
                    g['edge'] = (b, be[1], be[0])
                if x.has_call('last') and any(named_const(n, 'STUFF_SEQUENCE') for n in y.walk()) and y.kind == 'proj' and y.op == 'index' and y.b is not None and y.b.is_const_int(0):
                    g['edge'] = (b, be[1], be[0])
    ok = False
    if 'edge' in g and 'len-1' in kinds and 'len' in kinds:
        b, t, f = g['edge']
        p1, p2 = kinds['len-1'].pos, kinds['len'].pos
        ok = p1 is not None and p2 is not None and p1.bb in fn.reachable(t, cut_blocks=[b]) and p1.bb not in fn.reachable(f, cut_blocks=[b, s.bb]) \
            and p2.bb in fn.reachable(f, cut_blocks=[b]) and p2.bb not in fn.reachable(t, cut_blocks=[b, s.bb])
    if ok:
        # ... and on no other: whole-buffer emission requires the last byte to have been tested and found different
        def tested(bb, want):
            for e, v, ed in fn.facts_at(bb):
                if ed[0] == g['edge'][0] and v is want:
                    return True
            return False
        ok = tested(kinds['len'].pos.bb, False) and tested(kinds['len-1'].pos.bb, True)
    flag_form = 'len-flag' in kinds
    if flag_form:
        ok = True       # (the subtraction of the flag is the wiring)
    cx.check(ok, 'trailing-FE', fn, None, 'len-1 exactly on the edge last == STUFF_SEQUENCE[0], len on the other edge',
             fail_detail='the hold-back of a trailing 0xFE is not wired to last == STUFF_SEQUENCE[0]')
    # only when find returned None
    none_ok = False
    for b in sorted(fn.live_blocks()):
        e = fn.switch_expr(b)
        if e is not None and e.kind == 'discr' and is_call(e.a, 'find_stuff_sequence') and 'edge' in g:
            for sblk, vals in fn.edge_values(b).items():
                if 1 not in vals:
                    none_ok = g['edge'][0] in fn.reachable(sblk) and not any(g['edge'][0] in fn.reachable(s2) for s2, v2 in fn.edge_values(b).items() if 1 in v2)
    if flag_form and kinds['len-flag'].pos is not None:
        # the flag form is evaluated only on the None side of the search
        for b in sorted(fn.live_blocks()):
            e = fn.switch_expr(b)
            if e is not None and e.kind == 'discr' and is_call(e.a, 'find_stuff_sequence'):
                pb = kinds['len-flag'].pos.bb
                some_t = [s2 for s2, v2 in fn.edge_values(b).items() if 1 in v2]
                none_t = [s2 for s2, v2 in fn.edge_values(b).items() if 1 not in v2 and fn.term(s2)['k'] != 'unreachable']
                none_ok = bool(none_t) and all(pb in fn.reachable(s2) | {s2} for s2 in none_t) and not any(pb in fn.reachable(s2, cut_blocks=[b]) | {s2} for s2 in some_t)
    cx.check(none_ok, 'find-first', fn, None, 'the trailing-byte test runs only when find_stuff_sequence returned None',
             fail_detail='a found stuff sequence can be overridden by the trailing-byte rule')
    # sentinel test
    st = False
    for b in sorted(fn.live_blocks()):
        e = fn.switch_expr(b)
        if e is not None and e.kind == 'call' and e.op.endswith('::eq') and len(e.args) == 2:
            l, r = e.args[0].strip(), e.args[1].strip()
            for x, y in ((l, r), (r, l)):
                if y.kind == 'const' and y.info.get('ref_bytes') == cx.prog.const_bytes('hcobs::STUFF_SEQUENCE').hex() and is_call(x, 'Index<I>>::index'):
                    rng = x.args[1].strip()
                    if rng.kind == 'agg' and rng.args[0].is_const_int(0) and rng.args[1].is_const_int(2) and x.args[0].has_call(ASLICE + '::slice'):
                        st = True
        # the same test spelled buf.starts_with(&STUFF_SEQUENCE)
        if e is not None and e.kind == 'call' and e.op.endswith('starts_with') and len(e.args) == 2 and e.args[0].has_call(ASLICE + '::slice') and \
                any(c.info.get('ref_bytes') == cx.prog.const_bytes('hcobs::STUFF_SEQUENCE').hex() for c in e.args[1].consts()):
            st = True
    cx.check(st, 'sentinel-test', fn, None, 'Sentinel <=> buf[0..2] == STUFF_SEQUENCE', fail_detail='no comparison of the first two buffered bytes with STUFF_SEQUENCE')
    # tail kept
    kept = [pos for pos, pl, rv in fn.stores() if len(pl['p']) == 2 and pl['p'][1].get('n') == 'buf' and rv is not None
            and any(c.pos == s.pos for c in fn.rvalue_expr(rv).calls(ASLICE + '::split_at')) and fn.rvalue_expr(rv).strip().kind == 'proj'
            and fn.rvalue_expr(rv).strip().info.get('i') == 1]
    from . import c02
    c02.check_find_stuff(cx)
    cx.check(len(kept) == 1, 'tail-kept', fn, None, 'self.buf := split_at(split_pos).1', fail_detail='the tail of the split is not what is kept for the next call')


def _trailing_flag(cx, e):
    """e is usize::from(b) / b as usize with b the trailing-byte test `last == STUFF_SEQUENCE[0]` (either spelling):
    returns the test, else None"""
    c = e.strip()
    inner = None
    if c.kind == 'call' and 'From<bool>' in c.op and len(c.args) == 1:
        inner = c.args[0].strip()
    if inner is None:
        return None
    seq0 = cx.prog.const_bytes('hcobs::STUFF_SEQUENCE').hex()[:2]
    if inner.kind == 'call' and inner.op.endswith('::eq') and len(inner.args) == 2:
        for x, y in ((inner.args[0].strip(), inner.args[1].strip()), (inner.args[1].strip(), inner.args[0].strip())):
            if is_call(x, 'last') and x.args[0].has_call(ASLICE + '::slice') and y.kind == 'const' and 'Option<&u8>' in str(y.info.get('ty', '')) \
                    and (y.info.get('ptr_to_bytes') or '')[:2] == seq0:
                return inner
    if inner.kind == 'binop' and inner.op == 'Eq':
        for x, y in ((inner.a.strip(), inner.b.strip()), (inner.b.strip(), inner.a.strip())):
            if x.has_call('last') and any(named_const(n, 'STUFF_SEQUENCE') for n in y.walk()) and y.kind == 'proj' and y.op == 'index' and y.b is not None and y.b.is_const_int(0):
                return inner
    return None


def is_buf_len_arg(a):
    for c in a.calls('find_stuff_sequence'):
        s = c.args[0].strip()
        if is_call(s, ASLICE + '::slice') and is_param_field(s.args[0], 'buf'):
            return True
    return False


def r8_5(cx):
    """what pump stands on: read_n fills a block through short reads / EINTR with a buffer of exactly the block asked for, whatever the block size (R17.1-R17.3, R17.5, R17.7); the Data slices it cuts keep their bytes alive and no other arena hands out the same bytes (R5.4, R5.9)"""
    from . import c17, c05
    compose(cx, [('R17.1', c17.r17_1), ('R17.2', c17.r17_2), ('R17.3', c17.r17_3), ('R17.5', c17.r17_5), ('R17.7', c17.r17_7), ('R5.4', c05.r5_4), ('R5.9', c05.r5_9)])


RULES = [('R8.1', r8_1), ('R8.2', r8_2), ('R8.3', r8_3), ('R8.4', r8_4), ('R8.5', r8_5)]
RULES.append(('R8.6', scan_rule(('hcobs::stream_reader::',))))
FLOORS['R8.6'] = 1
