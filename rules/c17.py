"""C17 — arena reads under I/O faults: bounded retry loop, stop conditions, result rule, reserve/hand-back pairing."""
from .util import *  # noqa: F401,F403
from engine.woodlint.db import Pos, as_relation, show

PROPERTY = 'C17'

EXPLANATION = """
Static analysis of owning_iovec::byte_arena::{read_n, read_n_impl} and the hcobs wrappers.  Decided:
(R17.1) the arena calls Read::read at exactly one site, inside exactly one loop, dominated by the Some edge
of Range::next over 0..max_attempts.get() (so at most max_attempts calls); (R17.2) after the edges
`count == 0` (EOF), `kind != Interrupted` (hard error) and `got == slice.len()` (full) the read site is
unreachable, and the interrupted edge is the only error edge that can loop; (R17.3) Err is returned only
where got == 0 and the error slot is Some; the slot is overwritten by every error (Option::replace with the
Err payload of this call: "last error") and cleared on the EOF edge; Ok carries the accumulated count,
which is increased only by the Ok payload of the read; (R17.4) read_n returns Ok(default) on the count == 0
edge without reaching alloc or the reader; (R17.5) in read_n every path from the reservation (alloc) to
return hands back exactly once: the tail (base+got, count-got) on Ok, the whole reservation on Err; the
buffer handed to the reader is &mut slice[got..] of the reserved count bytes, so the reader is never asked
for more than count bytes in total; (R17.6) Encoder/Decoder::read_n only delegate to the arena, and
encode_read / decode_read reach encode_anchored / decode_anchored only from the Ok edge of read_n.
NOT decided: that the bytes returned are the bytes delivered in order (value-level).
"""

ASSUMPTIONS = ['Read::read returns at most buf.len() (the Read contract)', 'Range<usize>::next yields end-start items']

FLOORS = {'R17.1': 4, 'R17.2': 4, 'R17.3': 5, 'R17.4': 2, 'R17.5': 5, 'R17.6': 8, 'R17.7': 0}

ARENA = 'owning_iovec::byte_arena::ByteArena'


def _payload_of(e, pos):
    """e is a pure projection chain (Ok.0 ...) of the call at `pos`"""
    e = e.strip()
    while e.kind == 'proj' and e.op in ('field', 'downcast'):
        e = e.a.strip()
    return e.kind == 'call' and e.pos == pos


def _impl(cx):
    return cx.prog.fn(ARENA + '::read_n_impl')


def _read_site(cx, fn):
    sites = [cs for cs in fn.calls() if cs.matches('std::io::Read::read') or cs.syntactic.endswith('io::Read::read')]
    cx.require(len(sites) == 1, 'read_n_impl no longer has exactly one Read::read call (%d)' % len(sites))
    return sites[0]


def r17_1(cx):
    """at most max_attempts reader calls: one site, one loop, driven by Range::next over 0..max_attempts.get()"""
    prog = cx.prog
    fn = _impl(cx)
    # only site in the arena module
    others = []
    for f in prog.fns.values():
        if f.crate == 'owning_iovec' and 'byte_arena' in f.name:
            for cs in f.calls():
                if (cs.matches('std::io::Read::read') or cs.syntactic.endswith('io::Read::read')) and f is not fn:
                    others.append(cs)
    cx.check(not others, 'single-site', fn, None, 'the arena calls Read::read only in read_n_impl', fail_detail='other reader calls: %s' % others)
    rd = _read_site(cx, fn)
    heads = [h for h in fn.loop_headers() if rd.bb in fn.loop_blocks(h)]
    cx.check(len(heads) == 1, 'one-loop', fn, rd.loc(), 'the read site is in exactly one loop', fail_detail='the read site is in %d loops' % len(heads))
    if len(heads) != 1:
        return
    body = fn.loop_blocks(heads[0])
    ok = False
    detail = ''
    for e, val, edge in fn.facts_at(rd.bb):
        if e.kind == 'discr' and val == ('in', frozenset([1])) and is_call(e.a, 'Iterator>::next') and edge[0] in body:
            rng = [n for n in e.walk() if n.kind == 'agg' and n.info.get('variant') == 'Range']
            for r in rng:
                lo, hi = r.args[0].strip(), r.args[1].strip()
                if lo.is_const_int(0) and is_call(hi, 'NonZero::get') and hi.args[0].strip().kind == 'param' \
                        and 'NonZero<usize>' in (hi.args[0].strip().info.get('ty') or ''):
                    nxt = [c for c in e.calls('Iterator>::next')]
                    if all(c.pos.bb in body for c in nxt):
                        ok = True
                        detail = show(r)
    cx.check(ok, 'bounded-by-attempts', fn, rd.loc(), 'each read is preceded, in the same iteration, by Some = next() of %s' % detail,
             fail_detail='the read site is not dominated by the Some edge of Range::next over 0..max_attempts.get() inside its loop')
    exits = [b for b in body if fn.term(b)['k'] == 'switch' and fn.switch_expr(b).kind == 'discr' and is_call(fn.switch_expr(b).a, 'Iterator>::next')]
    none_leaves = all(any(0 in vals and s not in body for s, vals in fn.edge_values(b).items()) for b in exits) and bool(exits)
    cx.check(none_leaves, 'exhausted-leaves', fn, None, 'the None edge of the attempt counter leaves the loop', fail_detail='the loop continues after the attempt range is exhausted')


def _stop_edges(cx, fn, rd):
    """[(name, (b, s))] for the three stop conditions"""
    out = []
    for b in sorted(fn.live_blocks()):
        be = fn.bool_edges(b)
        if be is None:
            # `match src.read(..) { Ok(0) => eof, Ok(n) => .. }`: a switch on the Ok payload itself, arm 0
            if fn.term(b)['k'] == 'switch':
                e = fn.switch_expr(b)
                x = e.strip() if e is not None else None
                if x is not None and x.kind == 'proj' and any(k.pos == rd.pos for k in x.calls()) and not x.has_call('len') and e.kind != 'discr':
                    for tgt, vals in fn.edge_values(b).items():
                        if vals == {0}:
                            out.append(('eof', (b, tgt)))
            continue
        e = fn.switch_expr(b)
        rel = as_relation((e, True))
        if not rel:
            continue
        op, a, c = rel
        a_, c_ = a.strip(), c.strip()
        if op == 'Eq':
            for x, y in ((a_, c_), (c_, a_)):
                if y.is_const_int(0) and x.kind == 'proj' and any(k.pos == rd.pos for k in x.calls()) and not x.has_call('len'):
                    out.append(('eof', (b, be[1])))
                if is_call(y, 'len') and y.args[0].strip().kind == 'param' and any(n.kind == 'phi' or n.kind == 'binop' for n in x.walk()) \
                        and any(k.pos == rd.pos for k in x.calls()):
                    out.append(('full', (b, be[1])))
        if op == 'Ne':
            for x, y in ((a_, c_), (c_, a_)):
                if is_call(x, 'Error::kind') and y.kind == 'const' and y.info.get('variant') == 'Interrupted':
                    out.append(('hard-error', (b, be[1])))
        if op == 'Eq':
            for x, y in ((a_, c_), (c_, a_)):
                if is_call(x, 'Error::kind') and y.kind == 'const' and y.info.get('variant') == 'Interrupted':
                    out.append(('hard-error', (b, be[0])))
    return out


def r17_2(cx):
    """stop conditions: after EOF, a non-interrupt error, or a full buffer the reader is never called again"""
    fn = _impl(cx)
    rd = _read_site(cx, fn)
    edges = _stop_edges(cx, fn, rd)
    kinds = {k for k, _ in edges}
    for want in ('eof', 'hard-error', 'full'):
        es = [e for k, e in edges if k == want]
        cx.count_sites()
        if not es:
            cx.fail('stop:' + want, fn, None, 'no `%s` stop test found after the read' % want)
            continue
        for (b, s) in es:
            again = rd.bb in fn.reachable(s)
            cx.count_paths()
            cx.check(not again, 'stop:' + want, fn, fn.loc(b), 'after edge bb%d->bb%d the read site is unreachable' % (b, s),
                     fail_detail='the reader can be called again after the `%s` condition: %s' % (want, fn.show_path(fn.path(s, [rd.bb]))))
    # the only error edge that may loop is Interrupted: the Err edge of the read reaches the read again only via the kind test
    errsw = [b for b in fn.live_blocks() if fn.term(b)['k'] == 'switch' and fn.switch_expr(b).kind == 'discr'
             and any(k.pos == rd.pos for k in fn.switch_expr(b).calls()) and fn.switch_expr(b).a.strip().kind == 'call']
    ok = False
    for b in errsw:
        for s, vals in fn.edge_values(b).items():
            if 1 in vals:
                hard = [e for k, e in edges if k == 'hard-error']
                ok = bool(hard) and rd.bb not in fn.reachable(s, cut_blocks=[e[0] for e in hard])
    cx.check(ok, 'retry-only-interrupted', fn, None, 'from the Err edge the reader is re-entered only through the ErrorKind::Interrupted test',
             fail_detail='an error can lead back to the reader without the Interrupted test')


def r17_3(cx):
    """result rule: Err only for (got == 0, Some(e)); last error kept; cleared on EOF; Ok carries the accumulated count"""
    fn = _impl(cx)
    rd = _read_site(cx, fn)
    errs = [pos for pos, st in fn.statements() if st['k'] == 'assign' and st['pl']['l'] == 0 and st['rv']['k'] == 'agg' and st['rv']['variant'] == 'Err']
    oks = [pos for pos, st in fn.statements() if st['k'] == 'assign' and st['pl']['l'] == 0 and st['rv']['k'] == 'agg' and st['rv']['variant'] == 'Ok']
    cx.require(errs and oks, 'read_n_impl no longer builds both Ok and Err')
    # the error slot: the Option<io::Error> local passed to Option::replace
    reps = list(fn.calls('Option::replace'))
    # ... or the plain assignment `err = Some(e)` to the one Option<io::Error> local (also overwrites the previous one)
    direct = [(pos, st) for pos, st in fn.statements() if st['k'] == 'assign' and not st['pl']['p'] and st['rv']['k'] == 'agg' and st['rv'].get('variant') == 'Some'
              and 'Option<std::io::Error>' in fn.locals[st['pl']['l']].replace('core::', 'std::') and st['pl']['l'] != 0] if not reps else []
    cx.check(len(reps) == 1 or len(direct) == 1, 'last-error', fn, reps[0].loc() if reps else None, 'every error is stored in the one error slot (overwrites the previous one)',
             fail_detail='expected one Option::replace (or one `slot = Some(e)`) storing the error, found %d' % (len(reps) + len(direct)))
    slot = None
    if not reps and len(direct) == 1:
        dpos, dst = direct[0]
        payload = fn.operand_expr(dst['rv']['ops'][0]).strip()
        from_this_read = payload.kind == 'proj' and any(k.pos == rd.pos for k in payload.calls())
        on_err = any(e.kind == 'discr' and val == ('in', frozenset([1])) and any(k.pos == rd.pos for k in e.calls()) for e, val, ed in fn.facts_at(dpos.bb))
        cx.check(from_this_read and on_err, 'error-payload', fn, fn.loc(dpos.bb, dpos.idx), 'the stored error is the Err payload of this read call, on its Err edge',
                 fail_detail='the stored error is not the payload of the failing read')
        slot = dst['pl']['l']
        # (`err = Some(e)` on a local that needs dropping goes through a temporary: tmp = Some(e); drop(err); err = move tmp)
        moved = [st2['pl']['l'] for pos2, st2 in fn.statements() if st2['k'] == 'assign' and not st2['pl']['p'] and st2['rv']['k'] == 'use'
                 and st2['rv']['o'].get('k') == 'move' and not st2['rv']['o']['pl']['p'] and st2['rv']['o']['pl']['l'] == slot]
        if len(moved) == 1:
            slot = moved[0]
    if reps:
        rp = reps[0]
        a0 = rp.t['args'][0]
        # &mut _slot
        r = rp.arg(0)
        payload = rp.arg(1).strip()
        from_this_read = payload.kind == 'proj' and any(k.pos == rd.pos for k in payload.calls())
        on_err = any(e.kind == 'discr' and val == ('in', frozenset([1])) and any(k.pos == rd.pos for k in e.calls()) for e, val, ed in fn.facts_at(rp.bb))
        cx.check(from_this_read and on_err, 'error-payload', fn, rp.loc(), 'the stored error is the Err payload of this read call, on its Err edge',
                 fail_detail='the stored error is not the payload of the failing read')
        # find slot local: the ref target
        for pos, st in fn.statements():
            if st['k'] == 'assign' and st['pl']['l'] == a0['pl']['l'] and st['rv']['k'] == 'ref':
                slot = st['rv']['pl']['l']
    cx.require(slot is not None, 'cannot identify the error slot local')
    for pos in errs:
        facts = fn.facts_at(pos.bb)
        zero = False
        some = False
        for e, val, edge in facts:
            t = fn.term(edge[0])
            if val == ('in', frozenset([0])) and e.kind != 'discr' and any(k.pos == rd.pos for k in e.calls()):
                zero = True
            rel = as_relation((e, val))
            if rel and rel[0] == 'Eq' and (rel[1].is_const_int(0) or rel[2].is_const_int(0)) and any(k.pos == rd.pos for k in e.calls()):
                zero = True
            if e.kind == 'discr' and val == ('in', frozenset([1])) and (not list(e.calls()) or (e.a is not None and e.a.strip().kind in ('phi', 'local') and e.a.strip().info.get('l') == slot)):
                some = True
        cx.check(zero and some, 'err-only-when-nothing-read', fn, fn.loc(pos.bb, pos.idx), 'Err(e) only where got == 0 and the error slot is Some',
                 fail_detail='Err can be returned although bytes were delivered, or without a stored error (got==0: %s, slot Some: %s)' % (zero, some))
    # cleared on EOF
    rd_edges = dict((k, e) for k, e in _stop_edges(cx, fn, rd))
    cleared = False
    if 'eof' in rd_edges:
        b, s = rd_edges['eof']
        reach = fn.reachable(s)
        for pos, st in fn.statements():
            if pos.bb in reach and st['k'] == 'assign' and st['pl']['l'] == slot and not st['pl']['p']:
                v = fn.rvalue_expr(st['rv']).strip()
                if v.kind == 'agg' and v.info.get('variant') == 'None':
                    # must be unavoidable on the EOF path to the final match
                    cleared = fn.escapes(Pos(s, -1), avoid=[pos]) is None
    cx.check(cleared, 'cleared-on-eof', fn, None, 'on the EOF edge the error slot is reset to None on every path to return',
             fail_detail='after Interrupted followed by EOF the stale error is still reported')
    # accumulator
    okv = fn.operand_expr(fn.blocks[oks[0].bb]['st'][oks[0].idx]['rv']['ops'][0])
    alts = phi_alts(okv)
    good = all(a.is_const_int(0) or (a.strip().kind == 'binop' and a.strip().op == 'Add' and any(k.pos == rd.pos for k in a.strip().b.calls()) and a.strip().b.strip().kind == 'proj')
               for a in alts) and len(alts) >= 2
    cx.check(good, 'ok-count', fn, fn.loc(oks[0].bb), 'Ok(got) with got = 0 + sum of the Ok payloads of the read', fail_detail='Ok carries %s' % [show(a)[:80] for a in alts])


def r17_4(cx):
    """no read when count == 0: early Ok(default), alloc and the reader unreachable on that edge"""
    fn = cx.prog.fn(ARENA + '::read_n')
    cnt = [l for l in range(1, fn.argc + 1) if fn.locals[l] == 'usize']
    cx.require(len(cnt) == 1, 'read_n no longer has exactly one usize parameter')
    edge = None
    for b in sorted(fn.live_blocks()):
        be = fn.bool_edges(b)
        if be is None:
            continue
        rel = as_relation((fn.switch_expr(b), True))
        if rel and rel[0] == 'Eq':
            for x, y in ((rel[1].strip(), rel[2].strip()), (rel[2].strip(), rel[1].strip())):
                if x.kind == 'param' and x.info['i'] == cnt[0] and y.is_const_int(0):
                    edge = (b, be[1], be[0])
    cx.require(edge is not None, 'no `count == 0` test in read_n')
    b, t, f = edge
    reach = fn.reachable(t)
    bad = [cs for cs in fn.calls() if cs.bb in reach and (cs.matches(ARENA + '::alloc') or cs.matches(ARENA + '::read_n_impl') or 'Read::read' in cs.callee)]
    cx.check(not bad, 'zero-count-no-io', fn, fn.loc(b), 'on count == 0 neither alloc nor the reader is reachable', fail_detail='reachable on the zero edge: %s' % bad)
    al = list(fn.calls(ARENA + '::alloc'))
    cx.check(len(al) == 1 and b in fn.dominators()[al[0].bb] and al[0].bb in fn.reachable(f), 'alloc-after-test', fn, al[0].loc() if al else None,
             'the reservation happens only on the count != 0 edge', fail_detail='alloc is not guarded by the zero test')
    rets = [a.strip() for a in phi_alts(fn.local_expr(0, []))]
    dflt = [a for a in rets if a.kind == 'agg' and a.info.get('variant') == 'Ok' and is_call(a.args[0], 'Default>::default')]
    cx.check(bool(dflt), 'zero-count-empty', fn, None, 'returns Ok(AnchoredSlice::default()) (empty slice)', fail_detail='no Ok(default) return')


def r17_5(cx):
    """reserve / hand back: every path from alloc to return releases exactly once (tail on Ok, everything on Err)"""
    fn = cx.prog.fn(ARENA + '::read_n')
    al = list(fn.calls(ARENA + '::alloc'))
    cx.require(len(al) == 1, 'read_n no longer has exactly one alloc')
    al = al[0]
    rels = list(fn.calls('AllocCache::release_or_die'))
    cx.check(len(rels) == 2, 'two-release-sites', fn, None, 'two hand-back sites (Ok and Err)', fail_detail='%d release sites' % len(rels))
    w = fn.escapes(al.pos, avoid=[r.pos for r in rels])
    cx.count_paths()
    cx.check(w is None, 'always-released', fn, al.loc(), 'every path from the reservation to return passes release_or_die',
             fail_detail='a path from alloc to return releases nothing: %s' % fn.show_path(w))
    twice = [(a, b) for a in rels for b in rels if a is not b and b.bb in fn.reachable(a.next_bb())]
    cx.check(not twice, 'released-once', fn, None, 'no release site can follow another', fail_detail='double release possible: %s' % twice)
    impl = list(fn.calls(ARENA + '::read_n_impl'))
    cx.require(len(impl) == 1, 'read_n no longer calls read_n_impl exactly once')
    ic = impl[0]
    cnt = [l for l in range(1, fn.argc + 1) if fn.locals[l] == 'usize'][0]
    for r in rels:
        cx.count_sites()
        arg = r.arg(1).strip()
        on_ok = any(e.kind == 'discr' and val == ('in', frozenset([0])) and is_call(e.a, ARENA + '::read_n_impl') for e, val, ed in fn.facts_at(r.bb))
        on_err = any(e.kind == 'discr' and val == ('in', frozenset([1])) and is_call(e.a, ARENA + '::read_n_impl') for e, val, ed in fn.facts_at(r.bb))
        if on_ok:
            good = is_call(arg, 'make_ioslice') and is_call(arg.args[0], 'add') and arg.args[0].strip().args[0].has_call('ioslice_components') \
                and _payload_of(arg.args[0].strip().args[1], ic.pos) \
                and arg.args[1].strip().kind == 'binop' and arg.args[1].strip().op == 'Sub' \
                and arg.args[1].strip().a.strip().kind == 'param' and arg.args[1].strip().a.strip().info['i'] == cnt \
                and _payload_of(arg.args[1].strip().b, ic.pos)
            cx.check(good, 'ok-releases-tail', fn, r.loc(), 'Ok: release (base + got, count - got)', fail_detail='on Ok the hand-back is %s' % show(arg)[:160])
        elif on_err:
            good = arg.kind == 'proj' and is_call(arg.a, ARENA + '::alloc') and arg.info.get('i') == 0
            cx.check(good, 'err-releases-all', fn, r.loc(), 'Err: release the whole reservation', fail_detail='on Err the hand-back is %s' % show(arg)[:160])
        else:
            cx.fail('release-edge', fn, r.loc(), 'release site is on neither the Ok nor the Err edge of read_n_impl')
    # the buffer: from_raw_parts_mut(base, count) of the reservation; reader gets &mut slice[got..]
    bufs = [a for a in ic.args() if list(a.calls('from_raw_parts_mut'))]   # whichever position the buffer is passed in
    buf = bufs[0] if len(bufs) == 1 else ic.arg(ic.nargs() - 2)
    frp = [c for c in buf.calls('from_raw_parts_mut')]
    okb = len(frp) == 1 and frp[0].args[0].has_call(ARENA + '::alloc') and frp[0].args[1].strip().kind == 'param' and frp[0].args[1].strip().info['i'] == cnt
    cx.check(okb, 'buffer-is-reservation', fn, ic.loc(), 'the reader buffer is exactly the `count` reserved bytes', fail_detail='buffer is %s' % show(buf)[:160])
    im = _impl(cx)
    rd = _read_site(cx, im)
    b = rd.arg(1).strip()
    okw = is_call(b, 'IndexMut<I>>::index_mut') and b.args[0].strip().kind == 'param' and b.args[1].strip().kind == 'agg' \
        and b.args[1].strip().info.get('variant') == 'RangeFrom'
    cx.check(okw, 'window', im, rd.loc(), 'the reader is handed &mut slice[got..]', fail_detail='the reader is handed %s' % show(b)[:120])


def r17_6(cx):
    """codec wrappers: read_n delegates; encode_read/decode_read touch the codec only on the Ok edge of read_n"""
    prog = cx.prog
    for side, anch in (('hcobs::Encoder', 'encode_anchored'), ('hcobs::Decoder', 'decode_anchored')):
        rn = prog.fn(side + '::read_n')
        calls = [cs for cs in rn.calls(ARENA + '::read_n')]
        okd = len(calls) == 1 and all(a.strip().kind == 'param' for a in calls[0].args()[1:])
        other = [cs for cs in rn.calls() if cs.matches(side + '::encode') or cs.matches(side + '::decode') or 'push' in cs.callee]
        cx.check(okd and not other, 'delegates:' + short(side), rn, None, 'read_n forwards (reader, count, attempts) to ByteArena::read_n and touches nothing else',
                 fail_detail='%s::read_n does more than delegate' % side)
        wr = prog.fn(side + '::' + ('encode_read' if 'Encoder' in side else 'decode_read'))
        ac = list(wr.calls(side + '::' + anch))
        cx.count_sites()
        if len(ac) != 1:
            cx.fail('anchored-entry:' + short(side), wr, None, '%s feeds the buffer it read through %s instead of %s (%d calls): slices borrowed from the buffer are not backed by its anchor'
                    % (short(wr.name), sorted(set(short(k.callee) for k in wr.calls() if side in k.callee and 'read_n' not in k.callee)), anch, len(ac)))
            continue
        cx.ok('anchored-entry:' + short(side), wr, ac[0].loc(), 'the buffer goes through %s exactly once' % anch)
        # the wrapper asks read_n for exactly what it was asked: reader, count and attempts are its own parameters as they stand
        # (`count.max(1)` turns a zero-count read into a real one)
        rns = list(wr.calls(side + '::read_n'))
        okp = len(rns) == 1 and all(a.strip().kind == 'param' for a in rns[0].args()[1:]) and \
            [a.strip().info['i'] for a in rns[0].args()[1:]] == list(range(2, 2 + len(rns[0].args()) - 1))
        cx.check(okp, 'forwards-request:' + short(side), wr, rns[0].loc() if rns else None, 'read_n(reader, count, attempts) with the wrapper\'s own arguments',
                 fail_detail='%s does not pass its (reader, count, attempts) to read_n unchanged' % short(wr.name))
        c = ac[0]
        gated = any(e.kind == 'discr' and val == ('in', frozenset([0])) and e.has_call('Try>::branch') and e.has_call(side + '::read_n')
                    for e, val, ed in wr.facts_at(c.bb))
        fed = any(k.op.endswith('::read_n') for k in c.arg(1).calls())
        cx.count_sites()
        # the wrapper reports the number of bytes delivered: the length of the slice read_n returned
        oks = [pos for pos, st in wr.statements() if st['k'] == 'assign' and st['pl']['l'] == 0 and not st['pl']['p'] and st['rv']['k'] == 'agg' and st['rv']['variant'] == 'Ok']
        okr = bool(oks)
        for pos in oks:
            v = wr.operand_expr(wr.blocks[pos.bb]['st'][pos.idx]['rv']['ops'][0]).strip()
            okr = okr and is_call(v, 'len') and v.args[0].has_call('AnchoredSlice::slice') and any(k.op.endswith('::read_n') for k in v.calls()) \
                and not any(n.kind == 'binop' for n in v.walk())
        cx.check(okr, 'reports-delivered:' + short(side), wr, wr.loc(oks[0].bb) if oks else None, 'Ok(len of the slice read_n returned)',
                 fail_detail='%s does not report the number of bytes read_n delivered (a short read or end of stream is misreported)' % short(wr.name))
        cx.check(gated and fed, 'only-on-Ok:' + short(side), wr, c.loc(), '%s runs only on the Ok edge of read_n, on its result' % anch,
                 fail_detail='%s is reachable without read_n having succeeded (gated=%s, fed by read_n=%s)' % (anch, gated, fed))


def r17_7(cx):
    """the allocation under read_n does not panic at a size boundary: an assertion over a pair of values that a dominating guard also compares is implied by that guard"""
    prog = cx.prog
    root = prog.fn(ARENA + '::read_n')
    fns = [root] + [f for f in prog.may_call_star(root)[0] if f.crate == 'owning_iovec' and 'byte_arena' in f.name and not f.d.get('derived')]
    seen = set()
    for fn in sorted(fns, key=lambda f: f.name):
        if fn.key in seen:
            continue
        seen.add(fn.key)
        for i, (b, (op, a, c), guards, implied) in enumerate(boundary_checks(fn)):
            cx.count_sites()
            cx.check(implied, 'boundary:%s#%d' % (short(fn.name), i), fn, fn.loc(b), 'assert %s %s %s follows from the guard(s) %s on the same pair' % (show(a)[:30], op, show(c)[:30], guards),
                     fail_detail='the guards establish only %s between %s and %s, the assertion needs %s: it fires when the two are equal (a request of exactly that size panics instead of being served)'
                     % (guards, show(a)[:40], show(c)[:40], op))


    # the current chunk is kept only where it has room for the request: `remaining() >= len` on the way to every
    # return that does not create a fresh chunk (a weaker test hands alloc_or_die a chunk that is one byte short
    # and its assertion panics on an exact near-fit)
    ec = prog.fn(ARENA + '::ensure_capacity_internal')
    nw = list(ec.calls('AllocCache::new'))
    cx.require(len(nw) == 1, 'ensure_capacity_internal no longer creates exactly one cache')
    avoid = ec.reachable(0, cut_blocks=[nw[0].bb])
    committed = {b for b in avoid if b != nw[0].bb and nw[0].bb not in ec.reachable(b) and set(ec.returns()) & (ec.reachable(b) | {b})}
    preds = ec.preds()
    entries = sorted(b for b in committed if any(p in avoid and p not in committed for p in preds[b]) or b == 0)
    cx.count_sites()
    ok = bool(entries)
    for b in entries:
        rels = [r for r in (as_relation((e, v)) for e, v, ed in ec.facts_at(b)) if r]
        if not any((r[0] == 'Ge' or r[0] == 'Gt') and is_call(r[1], 'AllocCache::remaining') and r[2].strip().kind == 'param' and r[2].strip().info['i'] == 2 for r in rels):
            ok = False
    cx.check(ok, 'reuse-only-with-room', ec, ec.loc(entries[0]) if entries else None, 'the cached chunk is returned only where cache.remaining() >= len',
             fail_detail='ensure_capacity_internal can keep a chunk without room for the request: the allocation that follows asserts (panics) on a near-fit')


def r17_8(cx):
    """what the delivered bytes stand on: no other arena hands out the same bytes (R5.9), anchored input is backed until drained and its anchors are appended, never overwritten (R5.3, R5.7)"""
    from . import c05
    compose(cx, [('R5.9', c05.r5_9), ('R5.3', c05.r5_3), ('R5.7', c05.r5_7)])


RULES = [('R17.1', r17_1), ('R17.2', r17_2), ('R17.3', r17_3), ('R17.4', r17_4), ('R17.5', r17_5), ('R17.6', r17_6), ('R17.7', r17_7), ('R17.8', r17_8)]
RULES.append(('R17.9', scan_rule(('owning_iovec::byte_arena::', 'owning_iovec::implementation::'))))
FLOORS['R17.9'] = 1
