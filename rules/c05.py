"""C05 — every slice handed out points into live memory: unsafe inventory, 'static containment, anchor ordering,
AnchoredSlice construction, merge guards, anchors leave only at count zero, chunk lifetime."""
import re

from .oiv import *  # noqa: F401,F403
from engine.woodlint.core import table
from engine.woodlint.db import Pos, as_relation, show, E
from engine.woodlint.unsafeinv import inventory

PROPERTY = 'C05'

EXPLANATION = """
Static analysis of the memory-safety discipline of owning_iovec (+ the anchored entry points of hcobs).  Safety
rests on (i) the borrow checker for caller-provided buffers, provided the 'static lie stays inside the crate,
and (ii) a hand-maintained anchor discipline for arena memory.  Decided: (R5.1) unsafe inventory: per function
the set of unsafe operations found in the MIR (calls to unsafe fns, raw-pointer dereferences, union reads,
transmutes; macro plumbing excluded) is contained in the audited table tables/unsafe_inventory.json (31
functions, 4 unsafe impls, one reason each); any new unsafe operation or unsafe impl is an undischarged
obligation; (R5.2) the 'static lie never escapes through safe public API: every function whose signature
mentions IoSlice<'static>, &'static [u8] or &'static mut [u8] is unsafe or not exported, every ADT field of
such a type is private, and every exported safe function returning slice data ties each lifetime of the
returned IoSlice / &[u8] to a borrow of self (a `&'x self` parameter), so that e.g. -> &[IoSlice<'this>]
is rejected; (R5.3) anchored input pushes its anchor after the slices that reference it: in
Encoder::encode_anchored / Decoder::decode_anchored push_anchor is dominated by the encode/decode call and is
on every path after it (decode error path included), slice and anchor are halves of the same components()
result; (R5.4) an AnchoredSlice always carries the anchor of its bytes: its only construction sites are
Default (empty), split_at (both halves keep / clone self.anchor, pointers derived from self.slice, on the
mid < len edge) and read_n (slice and anchor from the same alloc); skip_prefix / drop_suffix only shrink with
a count clamped to len; (R5.6) merging: the collapse closure runs only with len >= 2 and anchor.count() >= 2,
the merge path pops one slice, rewrites the new last one and decrements the anchor by exactly 1; try_join
returns Some only when both slices are contained in the *current* cache and are adjacent; (R5.7) anchors
leave only at count zero: both pop_front sites of GlobalDeque::consume are on edges implying count() == 0,
the decrement budget is the number of slices actually advanced, push_anchor zeroes the count (asserted) before
queueing; clear drops slices and anchors together; (R5.8) chunk lifetime: Box::from_raw occurs only in
<Chunk as Drop>::drop, every bump allocation returns an Anchor obtained from merge_ref_or_create(old,
&self.backing) of the chunk it came from, after end - bump >= wanted was asserted; an Anchor's chunk is
sticky (never written after construction, so a parked zero-count anchor keeps its chunk alive) and its count
is written only by the three count methods; (R5.9) distinct allocations never overlap: allocation caches are
never cloned or shared and the bump pointer has three writers (R20.1/R20.2 re-evaluated).
NOT decided: that anchor counts equal the number of slices they cover after every history (value-level),
non-overlap of allocations beyond the bump discipline.  Borrow witnesses W4-W7/W10: thorough tier.
"""

ASSUMPTIONS = ['the borrow checker (for caller-provided buffers)', 'libc::iovec / IoSlice layout equality (compile-time assertion in the crate)']

FLOORS = {'R5.1': 35, 'R5.2': 28, 'R5.3': 6, 'R5.4': 7, 'R5.6': 7, 'R5.7': 8, 'R5.8': 10, 'R5.9': 10}

CRATES = ['owning_iovec', 'hcobs', 'rough_tlv', 'sliding_deque', 'vouched_time']


def r5_1(cx):
    """unsafe inventory: every unsafe operation in the workspace is in the audited table"""
    prog = cx.prog
    t = table('unsafe_inventory')
    inv, impls = inventory(prog, CRATES)
    allowed = t['functions']
    # a closure the table does not list is part of the body of the function it is written in: its operations are
    # audited as that function's (`match x { Some(c) => unsafe {..} }` respelled `x.is_some_and(|c| unsafe {..})`)
    for name in sorted(inv):
        parent = re.sub(r'(::\{closure#\d+\})+$', '', name)
        if parent != name and name not in allowed and parent in prog.by_name:
            inv[parent] = sorted(set(inv.get(parent, [])) | set(inv.pop(name)))
    for name in sorted(set(inv) | set(allowed)):
        ops = inv.get(name, [])
        if name not in allowed:
            fn = prog.by_name.get(name, [None])[0]
            cx.fail('unaudited:' + short(name), fn, None, 'function outside the audited table performs unsafe operations: %s' % ops)
            continue
        if name not in inv:
            if name in prog.by_name:
                cx.ok('audited:' + short(name), prog.by_name[name][0], None, 'no unsafe operation left (table allows %d)' % len(allowed[name]['ops']))
            continue
        cx.count_sites(len(ops))
        extra = [o for o in ops if o not in allowed[name]['ops']]
        cx.check(not extra, 'audited:' + short(name), prog.by_name[name][0], None, '%d unsafe op(s) within the audited set: %s' % (len(ops), allowed[name]['reason'][:100]),
                 fail_detail='new unsafe operation(s) %s (audited: %s)' % (extra, allowed[name]['ops']))
    for i in impls:
        cx.check(i in t['unsafe_impls'], 'unsafe-impl:' + i[:60], None, i, 'audited unsafe impl', fail_detail='unaudited `unsafe impl %s`' % i)
    cx.check(len(impls) <= len(t['unsafe_impls']), 'unsafe-impl-count', None, 'workspace', '%d unsafe impls' % len(impls))


STATIC_PATS = ("IoSlice<'static>", "&'static [u8]", "&'static mut [u8]")


def r5_2(cx):
    """the 'static lie never escapes through safe public API"""
    prog = cx.prog
    n = 0
    for f in sorted(prog.fns.values(), key=lambda f: f.name):
        if f.crate not in ('owning_iovec', 'hcobs') or f.kind == 'Closure' or f.d.get('derived'):
            continue
        sig = f.d.get('sig', '')
        if any(p in sig for p in STATIC_PATS):
            n += 1
            cx.count_sites()
            ok = f.d.get('unsafe') or not f.d.get('exported')
            cx.check(ok, "static-contained:" + short(f.name), f, None, "'static slices in the signature: %s" % ('unsafe fn' if f.d.get('unsafe') else 'not exported'),
                     fail_detail="safe exported function with a 'static slice in its signature (arena memory escapes with a forged lifetime): %s" % sig[:160])
    cx.check(n >= 8, 'static-sites', None, 'owning_iovec', "%d signatures mention 'static slices" % n, fail_detail="only %d signatures mention 'static slices" % n)
    for a in prog.adts.values():
        if a['crate'] not in ('owning_iovec', 'hcobs'):
            continue
        for v in a['variants']:
            for fl in v['fields']:
                if any(p in fl['ty'] for p in STATIC_PATS) or ("IoSlice<" in fl['ty']) or ("OwningIovec<'static>" in fl['ty']):
                    cx.count_sites()
                    cx.check(not fl['vis'].startswith('Public'), 'field-private:%s.%s' % (short(a['name']), fl['n']), None, '%s:%s' % (a['file'], a['line']),
                             'private field of type %s' % fl['ty'][:60], fail_detail='public field %s.%s : %s' % (a['name'], fl['n'], fl['ty']))
    # a ConsumingIovec / StableIovec (a raw pointer to the iovec with an unsafe deref inside) lives no longer than the
    # exclusive borrow it was made from, or than the handle it was converted from
    for f in sorted(prog.fns.values(), key=lambda f: f.name):
        if f.crate not in ('owning_iovec', 'hcobs') or f.kind == 'Closure' or f.d.get('derived') or not f.d.get('exported') or f.d.get('unsafe'):
            continue
        sig = f.d.get('sig', '')
        m = re.match(r"(?:for<[^>]*> )?fn\((.*)\) -> (.*)$", sig)
        if not m:
            continue
        params, rets = m.group(1), m.group(2)
        hl = set(re.findall(r"(?:ConsumingIovec|StableIovec)<'(\w+)>", rets))
        if not hl:
            continue
        cx.count_sites()
        src = set(re.findall(r"&'(\w+) mut ", params)) | set(re.findall(r"(?:ConsumingIovec|StableIovec)<'(\w+)>", params))
        bad = sorted(l for l in hl if l not in src)
        cx.check(not bad, 'handle-tied:' + short(f.name), f, None, "the handle's lifetime %s is that of the &mut borrow (or handle) it comes from" % sorted(hl),
                 fail_detail="the consumer handle gets lifetime %s, which is not the lifetime of an exclusive borrow in (%s): it can outlive the iovec it points to" % (bad, params[:120]))
    # returned slice data is tied to a borrow of self
    for f in sorted(prog.fns.values(), key=lambda f: f.name):
        if f.crate not in ('owning_iovec', 'hcobs') or f.kind == 'Closure' or f.d.get('derived') or not f.d.get('exported') or f.d.get('unsafe'):
            continue
        ret = f.locals[0]
        if not ('IoSlice<' in ret or '[u8]' in ret):
            continue
        if "OwningIovec<'static>" in ret and 'IoSlice<' not in ret.replace("OwningIovec<'static>", ''):
            # &'a mut OwningIovec<'static>: the iovec owns its anchors; reads tie to the borrow of the iovec
            if "&'" not in ret:
                cx.fail('ret-tied:' + short(f.name), f, None, "an owned OwningIovec<'static> is handed out by a safe exported function")
            continue
        sig = f.d.get('sig', '')
        m = re.match(r"(?:for<[^>]*> )?(?:unsafe )?fn\((.*)\) -> (.*)$", sig)
        params = m.group(1) if m else ''
        rets = m.group(2) if m else ret
        first = params.split(', ')[0] if params else ''
        self_lt = re.match(r"&'(\w+) ", first)
        self_lt = self_lt.group(1) if self_lt else None
        lts = set(re.findall(r"IoSlice<'(\w+)>", rets)) | set(re.findall(r"&'(\w+) (?:mut )?\[", rets)) | set(re.findall(r"Iter<'(\w+),", rets))
        cx.count_sites()
        bad = sorted(l for l in lts if l != self_lt)
        cx.check(bool(lts) and not bad and self_lt is not None, 'ret-tied:' + short(f.name), f, None, "returned slices live for the borrow &'%s self" % self_lt,
                 fail_detail="the returned slice data carries lifetime(s) %s that are not the borrow of self (%s): %s" % (bad or sorted(lts), first[:40], sig[:160]))


def r5_3(cx):
    """anchored input: push_anchor after the slices that reference it, on every path"""
    prog = cx.prog
    for fname, inner in (('hcobs::Encoder::encode_anchored', 'hcobs::Encoder::encode'), ('hcobs::Decoder::decode_anchored', 'hcobs::Decoder::decode')):
        f = prog.fn(fname)
        comp = list(f.calls(AS + '::components'))
        use = list(f.calls(prog.fn(inner)))
        pa = list(f.calls(prog.fn(OI + '::push_anchor')))
        cx.require(len(comp) == 1 and len(use) == 1 and len(pa) == 1, '%s no longer has one components(), one %s and one push_anchor' % (fname, inner))
        c, u, p = comp[0], use[0], pa[0]
        cx.check(f.pos_dominates(u.pos, p.pos), 'anchor-after-slices:' + short(fname), f, p.loc(), 'push_anchor is dominated by the %s call' % short(inner),
                 fail_detail='the anchor can be pushed before the slices that reference it')
        w = f.escapes(u.pos, avoid=[p.pos])
        cx.count_paths()
        cx.check(w is None, 'anchor-always:' + short(fname), f, u.loc(), 'every path after %s pushes the anchor (error path included)' % short(inner),
                 fail_detail='slices were pushed and a path returns without pushing their anchor: %s' % f.show_path(w))
        sl, an = u.arg(1).strip(), p.arg(1).strip()
        ok = sl.kind == 'proj' and sl.info.get('i') == 1 and any(x.pos == c.pos for x in sl.calls()) and an.kind == 'proj' and an.info.get('i') == 2 and any(x.pos == c.pos for x in an.calls())
        cx.check(ok, 'same-components:' + short(fname), f, None, 'slice and anchor are halves of one components() result', fail_detail='slice = %s, anchor = %s' % (show(sl)[:60], show(an)[:60]))
        recv = p.arg(0)
        cx.check(rooted_in_param_field(recv, 'iovec') and rooted_in_param_field(u.arg(0), 'iovec') or u.arg(0).strip().kind == 'param', 'same-iovec:' + short(fname), f, None,
                 'anchor pushed into the iovec that received the slices')


def r5_4(cx):
    """AnchoredSlice construction sites and shrinking"""
    prog = cx.prog
    adt = prog.adt(AS)
    sites = []
    for f in prog.fns.values():
        for pos, e in agg_sites(f, adt_key_suffix=adt['key']):
            if not f.d.get('derived'):
                sites.append((f, pos, e))
    where = sorted(f.name for f, _, _ in sites)
    expect = sorted(['<owning_iovec::byte_arena::AnchoredSlice as std::default::Default>::default', BA + '::read_n', AS + '::split_at', AS + '::split_at'])
    cx.check(where == expect, 'construction-sites', None, 'owning_iovec/src/byte_arena/mod.rs', 'AnchoredSlice is built only in Default, split_at (x2) and read_n',
             fail_detail='AnchoredSlice literals in %s' % where)
    for f, pos, e in sites:
        cx.count_sites()
        sl, an = e.args[0].strip(), e.args[1].strip()
        if f.name.endswith('Default>::default'):
            ok = is_call(sl, 'make_ioslice') and sl.args[1].is_const_int(0) and is_call(an, 'Default>::default')
            cx.check(ok, 'site:default', f, f.loc(pos.bb), 'empty slice, empty anchor', fail_detail='Default builds %s / %s' % (show(sl)[:60], show(an)[:60]))
        elif f.name == AS + '::split_at':
            ok = is_call(sl, 'make_ioslice') and sl.args[0].has_call('ioslice_components') and rooted_in_param_field(sl.args[0], 'slice') and \
                (is_param_field(an, 'anchor') or (is_call(an, 'Clone>::clone') and rooted_in_param_field(an, 'anchor')))
            guarded = any((r := as_relation((x, v))) and r[0] == 'Lt' and r[1].strip().kind == 'param' for x, v, ed in f.facts_at(pos.bb))
            cx.check(ok and guarded, 'site:split_at', f, f.loc(pos.bb), 'pointer derived from self.slice, anchor = self.anchor (or its clone), on the mid < len edge',
                     fail_detail='split_at builds %s / %s (mid < len guard: %s)' % (show(sl)[:80], show(an)[:60], guarded))
        else:
            al = [c for c in sl.calls(BA + '::alloc')]
            al2 = [c for c in an.calls(BA + '::alloc')]
            ok = is_call(sl, 'make_ioslice') and al and al2 and al[0].pos == al2[0].pos
            cx.check(ok, 'site:read_n', f, f.loc(pos.bb), 'slice and anchor come from the same alloc', fail_detail='read_n builds %s / %s' % (show(sl)[:80], show(an)[:60]))
    for nm in ('skip_prefix', 'drop_suffix'):
        f = prog.fn(AS + '::' + nm)
        st = [(pos, f.rvalue_expr(rv).strip()) for pos, pl, rv in f.stores() if pl['p'] and pl['p'][-1].get('n') == 'slice' and rv is not None]
        ok = len(st) == 1 and is_call(st[0][1], 'make_ioslice')
        if ok:
            ln = st[0][1].args[1].strip()
            def _clamped_sub(n):
                n = n.strip()
                if n.kind == 'binop' and n.op == 'Sub':
                    return is_call(n.b, 'Ord::min') and any(a.strip().kind == 'param' for a in n.b.strip().args)
                if n.kind == 'call' and n.op.endswith('saturating_sub') and len(n.args) == 2:   # same value once the count is clamped
                    return is_call(n.args[1], 'Ord::min') and any(a.strip().kind == 'param' for a in n.args[1].strip().args)
                return False
            ok = any(_clamped_sub(n) for n in ln.walk()) or (ln.kind == 'phi' and any(_clamped_sub(a) for a in ln.args))
        cx.check(ok, 'shrink:' + nm, f, None, 'new length = len - count.min(len)', fail_detail='%s does not clamp its count to the length' % nm)


def r5_6(cx):
    """merging only inside one anchor and inside the current cache"""
    prog = cx.prog
    f = prog.fn(GD + '::maybe_collapse_last_pair')
    cc = [cs for cs in f.calls() if 'FnOnce' in cs.callee or 'call_once' in cs.callee]
    cx.require(len(cc) == 1, 'maybe_collapse_last_pair no longer calls the collapse closure exactly once')
    c = cc[0]
    rels = [as_relation((e, v)) for e, v, ed in f.facts_at(c.bb)]
    rels = [r for r in rels if r]
    two_slices = any(r[0] == 'Ge' and is_call(r[1], 'len') and r[2].is_const_int(2) for r in rels)
    two_count = any(r[0] == 'Ge' and is_call(r[1], AN + '::count') and r[2].is_const_int(2) for r in rels)
    cx.check(two_slices, 'needs-two-slices', f, c.loc(), 'collapse only where slices.len() >= 2', fail_detail='collapse can run with fewer than two slices')
    cx.check(two_count, 'same-anchor', f, c.loc(), 'collapse only where the back anchor covers >= 2 slices (both slices under one anchor)',
             fail_detail='collapse can merge slices covered by different anchors')
    args = c.arg(1).strip()
    ok = args.kind == 'agg' and len(args.args) == 2 and all(a.strip().kind == 'proj' and a.strip().op == 'index' for a in args.args)
    if ok:
        i0, i1 = args.args[0].strip().b.strip(), args.args[1].strip().b.strip()
        ok = i0.kind == 'binop' and i0.op == 'Sub' and i0.b.is_const_int(2) and i1.kind == 'binop' and i1.op == 'Sub' and i1.b.is_const_int(1)
    cx.check(ok, 'last-two', f, c.loc(), 'collapse(slices[len-2], slices[len-1])', fail_detail='collapse is not applied to the last two slices')
    # merge path
    some_t = None
    for b in f.live_blocks():
        e = f.switch_expr(b) if f.term(b)['k'] == 'switch' else None
        if e is not None and e.kind == 'discr' and any(x.pos == c.pos for x in e.calls()):
            for s, vals in f.edge_values(b).items():
                if 1 in vals:
                    some_t = s
    cx.require(some_t is not None, 'cannot find the Some edge of the collapse result')
    reach = f.reachable(some_t)
    pops = [cs for cs in f.calls(SL + '::pop_back') if cs.bb in reach]
    decs = [cs for cs in f.calls(AN + '::decrement_count') if cs.bb in reach]
    wr = [pos for pos, pl, rv in f.stores() if pos.bb in reach and rv is not None and any(x.pos == c.pos for x in f.rvalue_expr(rv).calls())]
    okm = len(pops) == 1 and len(decs) == 1 and decs[0].arg(1).is_const_int(1) and len(wr) == 1 and \
        f.escapes(Pos(some_t, -1), avoid=[decs[0].pos]) is None and f.escapes(Pos(some_t, -1), avoid=[pops[0].pos]) is None
    cx.check(okm, 'merge-path', f, None, 'on Some(merger): pop_back, *back_mut = merger, anchor.decrement_count(1), each exactly once on every path',
             fail_detail='the merge path does not pop one slice, store the merger and decrement the anchor by exactly 1')
    notmerge = [cs for cs in f.calls() if (cs.matches(SL + '::pop_back') or cs.matches(AN + '::decrement_count')) and cs.bb not in reach]
    cx.check(not notmerge, 'only-on-merge', f, None, 'nothing is popped or decremented unless the closure returned Some', fail_detail='pop/decrement outside the merge path: %s' % notmerge)
    tj = prog.fn(BA + '::try_join')
    somes = [p for p, e in agg_sites(tj, variant='Some', local=0)]
    okj = len(somes) == 1
    if okj:
        facts = tj.facts_at(somes[0].bb)
        both = [1 for e, v, ed in facts if (o := some_of(e, v)) is not None and is_call(o, BA + '::contains')]
        adj = [1 for e, v, ed in facts if (r := as_relation((e, v))) and r[0] == 'Eq' and r[1].strip().kind == 'binop' and r[1].strip().op == 'Add']
        okj = len(both) >= 2 and bool(adj)
    if okj:
        e = [e for p, e in agg_sites(tj, variant='Some', local=0)][0]
        v = e.args[0].strip()
        okj = is_call(v, 'make_ioslice') and v.args[1].strip().kind == 'binop' and v.args[1].strip().op == 'Add' and v.args[0].has_call('ioslice_components') and \
            show(v.args[0].strip()) != show(v.args[1].strip().b.strip())
        # base is the left slice's base: the same components call feeds base and the first length summand
        la = [c.pos for c in v.args[0].calls('ioslice_components')]
        lb = [c.pos for c in v.args[1].strip().a.calls('ioslice_components')]
        okj = okj and la and lb and la[0] == lb[0]
    cx.check(okj, 'try_join', tj, None, 'Some only when both slices are contained in the current cache and left.end == right.start',
             fail_detail='try_join can join slices that are not both in the current cache, or not adjacent')
    ct = prog.fn(BA + '::contains')
    somes = [p for p, e in agg_sites(ct, variant='Some', local=0)]
    okc = len(somes) == 1
    if okc:
        rels = [as_relation((e, v)) for e, v, ed in ct.facts_at(somes[0].bb)]
        rels = [r for r in rels if r]
        lo = any(r[0] == 'Le' and r[1].has_call(AC + '::range') and r[2].has_call('ioslice_components') for r in rels)
        hi = any(r[0] == 'Le' and r[1].strip().kind == 'binop' and r[1].strip().op == 'Add' and r[2].has_call(AC + '::range') for r in rels)
        okc = lo and hi and any(is_param_field(n, 'cache') for r in rels for n in r[1].walk()) or (lo and hi)
    cx.check(okc, 'contains', ct, None, 'Some only where range.start <= base and base + len <= range.end of self.cache', fail_detail='contains() accepts slices outside the current cache range')


def r5_7(cx):
    """anchors leave the deque only at count zero"""
    prog = cx.prog
    f = prog.fn(GD + '::consume')
    pops = [cs for cs in f.calls('VecDeque::pop_front') if rooted_in_param_field(cs.arg(0), 'anchors')]
    cx.check(len(pops) == 2, 'pop-sites', f, None, '2 anchor pop sites', fail_detail='%d anchor pop sites in consume' % len(pops))
    for i, p in enumerate(pops):
        cx.count_sites()
        rels = [as_relation((e, v)) for e, v, ed in f.facts_at(p.bb)]
        rels = [r for r in rels if r]
        zero = any((r[0] == 'Eq' and is_call(r[1], AN + '::count') and r[2].is_const_int(0)) or (r[0] == 'Le' and is_call(r[1], AN + '::count') and r[2].is_const_int(0)) for r in rels)
        front = any(is_call(r[1], AN + '::count') and (r[1].has_call('front_mut') or r[1].has_call('front')) for r in rels)
        cx.check(zero and front, 'pop-at-zero#%d' % i, f, p.loc(), 'anchors.pop_front() only where front.count() == 0', fail_detail='an anchor can be dropped while it still covers slices')
    dec = list(f.calls(AN + '::decrement_count'))
    adv = list(f.calls(SL + '::advance'))
    okb = len(dec) == 1 and len(adv) == 1 and all(any(c.pos == adv[0].pos for c in a.calls()) or is_call(a, AN + '::decrement_count') for a in phi_alts(dec[0].arg(1)))
    cx.check(okb, 'budget', f, dec[0].loc() if dec else None, 'the decrement budget is the number of slices actually advanced (then the remainder)', fail_detail='anchors are decremented by something other than the slices advanced')
    # ... in every method of the deque that advances the slices, not only in consume
    for g in method_fns(prog, GD):
        advs = [c for c in g.calls(SL + '::advance') if rooted_in_param_field(c.arg(0), 'slices')]
        if not advs:
            continue
        decs = list(g.calls(AN + '::decrement_count'))
        okg = len(advs) == 1 and len(decs) == 1 and g.pos_dominates(advs[0].pos, decs[0].pos) and \
            all(any(c.pos == advs[0].pos for c in a.calls()) or is_call(a, AN + '::decrement_count') for a in phi_alts(decs[0].arg(1)))
        cx.check(okg, 'budget:' + short(g.name), g, advs[0].loc(), 'slices.advance(n) is followed by anchor decrements with a budget of exactly the n advanced',
                 fail_detail='%s advances the slices and decrements the anchors by a different amount (or not at all): a stale anchor count keeps a chunk alive or releases it early' % short(g.name))
    okc = len(adv) == 1 and is_call(adv[0].arg(1), 'Ord::min') and any(is_call(a, 'len') for a in adv[0].arg(1).strip().args)
    cx.check(okc, 'advance-clamped', f, adv[0].loc() if adv else None, 'advance(count.min(slices.len()))', fail_detail='consume advances by an unclamped count')
    pa = prog.fn(GD + '::push_anchor')
    pb = [cs for cs in pa.calls('VecDeque::push_back')]
    d = list(pa.calls(AN + '::decrement_count'))
    okp = len(pb) == 1 and len(d) == 1 and pa.pos_dominates(d[0].pos, pb[0].pos) and is_call(d[0].arg(1), AN + '::count') and \
        any((r := as_relation((e, v))) and r[0] == 'Eq' for e, v, ed in pa.facts_at(pb[0].bb))
    # the anchor is appended on every path (it is what keeps the buffer it came with alive: it can stand behind a
    # zero-count anchor, never replace one), and no queued anchor is ever overwritten as a whole
    always = len(pb) == 1 and pa.path(0, pa.returns(), cut_blocks=[pb[0].bb]) is None
    cx.check(always, 'push_anchor-appends', pa, pb[0].loc() if pb else None, 'push_anchor reaches anchors.push_back on every path',
             fail_detail='push_anchor can return without appending the anchor (its buffer is then backed by nothing)')
    an_ty = prog.adt(AN)['name']
    over = []
    for g in method_fns(prog, GD):
        for pos, pl, rv in g.stores():
            if rv is None or pl['p'][-1]['k'] != 'deref':
                continue
            if g.locals[pl['l']].replace('&mut ', '').replace("&'_ mut ", '').strip().endswith(an_ty.rsplit('::', 1)[-1]) and \
                    any(c.op.rsplit('::', 1)[-1] in ('back_mut', 'front_mut', 'get_mut', 'index_mut', 'iter_mut') for c in g.local_expr(pl['l'], []).calls()):
                over.append((g, pos))
    cx.check(not over, 'anchors-never-overwritten', over[0][0] if over else None, over[0][0].loc(over[0][1].bb) if over else 'owning_iovec/src/global_deque.rs',
             'no method of the deque assigns a whole Anchor into a queued slot', fail_detail='%s overwrites a queued anchor: the chunk it kept alive is released while slices may still point into it' % (short(over[0][0].name) if over else ''))
    gn = prog.fn(GD + '::new')
    nw = list(gn.calls(AN + '::new_with_count'))
    oki = len(nw) == 1 and any(is_call(n, 'len') and n.params() == {1} for n in nw[0].arg(0).walk()) and not any(n.kind == 'binop' for n in nw[0].arg(0).walk()) \
        and not list(nw[0].arg(0).consts()) or (len(nw) == 1 and any(is_call(n, 'len') and n.params() == {1} for n in nw[0].arg(0).walk())
                                               and not any(n.kind == 'binop' for n in nw[0].arg(0).walk()) and all(k.info.get('int') is None for k in nw[0].arg(0).consts()))
    cx.check(oki, 'initial-anchor-count', gn, nw[0].loc() if nw else None, 'the anchor of the initial slices counts exactly slices.len()',
             fail_detail='GlobalDeque::new gives the initial anchor a count other than slices.len(): draining the initial slices then steals counts from the next anchor')
    cx.check(okp, 'push_anchor-zeroed', pa, None, 'a pushed anchor has its count zeroed (asserted) before it is queued', fail_detail='push_anchor queues an anchor with a non-zero count')
    cl = prog.fn(GD + '::clear')
    okl = len([c for c in cl.calls(SL + '::clear')]) == 1 and len([c for c in cl.calls('VecDeque::clear')]) == 1
    cx.check(okl, 'clear-together', cl, None, 'clear drops slices and anchors together', fail_detail='clear does not drop both slices and anchors')


def r5_8(cx):
    """chunk lifetime: freed only by Chunk::drop; allocations carry an anchor of their own chunk"""
    prog = cx.prog
    fr = sorted({cs.fn.name for f in prog.fns.values() for cs in f.calls('Box::from_raw')})
    cx.check(fr == ['<owning_iovec::byte_arena::anchor::Chunk as std::ops::Drop>::drop'], 'from_raw', None, 'owning_iovec/src/byte_arena/anchor.rs',
             'Box::from_raw only in <Chunk as Drop>::drop', fail_detail='Box::from_raw in %s' % fr)
    ao = prog.fn(AC + '::alloc_or_die')
    r = ao.local_expr(0, []).strip()
    ok = r.kind == 'agg' and len(r.args) == 2 and is_call(r.args[1], AN + '::merge_ref_or_create') and rooted_in_param_field(r.args[1].strip().args[1], 'backing') \
        and is_call(r.args[0], 'make_ioslice') and rooted_in_param_field(r.args[0].strip().args[0], 'bump')
    cx.check(ok, 'alloc-anchored', ao, None, 'returns (slice at bump, merge_ref_or_create(old, &self.backing))', fail_detail='alloc_or_die returns %s' % show(r)[:160])
    bump = [(pos, ao.rvalue_expr(rv).strip()) for pos, pl, rv in ao.stores() if pl['p'] and pl['p'][-1].get('n') == 'bump' and rv is not None]
    okb = len(bump) == 1 and is_call(bump[0][1], 'add') and any((rr := as_relation((e, v))) and rr[0] == 'Ge' and rr[1].strip().kind == 'binop' and rr[1].strip().op == 'Sub'
                                                                  and rr[2].strip().kind == 'param' for e, v, ed in ao.facts_at(bump[0][0].bb))
    cx.check(okb, 'bump-bounded', ao, None, 'bump += wanted only after end - bump >= wanted was asserted', fail_detail='the bump pointer moves without the capacity assertion')
    mr = prog.fn(AN + '::merge_ref_or_create')
    nw = [cs for cs in mr.calls(AN + '::new')]
    okm = len(nw) == 1 and nw[0].arg(1).has_call('Clone>::clone') and any(a.strip().kind == 'param' for a in nw[0].arg(1).walk())
    # (Anchor::is_same_chunk is read through: it is always inlined, see normalize.ALWAYS_INLINE)
    fam = [mr] + list(prog.closures_of(mr))
    same = [cs for g in fam for cs in g.calls() if cs.callee.endswith('ptr_eq')]
    # (one ptr_eq in the source: a closure spliced into its caller shows it twice)
    cx.check(okm and len({cs.line for cs in same}) == 1, 'anchor-of-chunk', mr, None, 'a new Anchor clones the Arc of the chunk; an existing one is reused only if is_same_chunk',
             fail_detail='merge_ref_or_create does not tie the anchor to the allocating chunk')
    # an anchor's chunk is sticky: set at construction, never re-pointed (a parked zero-count anchor keeps the
    # chunk of the slices in front of it alive)
    an = prog.adt(AN)
    rewrites = []
    for f in prog.fns.values():
        if f.crate != 'owning_iovec' or f.d.get('derived'):
            continue
        for pos, pl, rv in f.stores():
            if pl['p'] and pl['p'][-1]['k'] == 'field' and pl['p'][-1]['n'] == 'chunk' and pl['p'][-1].get('adt') == an['key']:
                rewrites.append('%s at %s' % (short(f.name), f.loc(pos.bb, pos.idx)))
        for cs in f.calls():
            if (cs.callee.endswith('mem::swap') or cs.callee.endswith('mem::replace') or cs.callee.endswith('mem::take') or cs.callee.endswith('Option::replace')
                    or cs.callee.endswith('Option::insert') or cs.callee.endswith('Option::take')) and \
                    any(n.kind == 'proj' and n.info.get('n') == 'chunk' and n.info.get('adt') == an['key'] for a in cs.args() for n in a.walk()):
                rewrites.append('%s via %s' % (short(f.name), short(cs.callee)))
    cx.check(not rewrites, 'anchor-chunk-sticky', None, '%s:%s' % (an['file'], an['line']), 'Anchor.chunk is never written after construction',
             fail_detail='an existing Anchor can be re-pointed to another chunk (%s): the chunk it was keeping alive is released under live slices' % rewrites)
    # counts are only changed by the three count methods and merge_ref_or_create's +1 on the same chunk
    cw = set()
    for f in prog.fns.values():
        if f.crate != 'owning_iovec' or f.d.get('derived'):
            continue
        for pos, pl, rv in f.stores():
            if pl['p'] and pl['p'][-1]['k'] == 'field' and pl['p'][-1]['n'] == 'count' and pl['p'][-1].get('adt') == an['key']:
                cw.add(f.name)
    cx.check(cw <= {AN + '::increment_count', AN + '::decrement_count', AN + '::merge_ref_or_create'} and cw, 'count-writers', None, '%s:%s' % (an['file'], an['line']),
             'Anchor.count is written only by increment_count / decrement_count / merge_ref_or_create', fail_detail='Anchor.count written in %s' % sorted(cw))
    mc = [(pos, mr.rvalue_expr(rv).strip()) for pos, pl, rv in mr.stores() if pl['p'] and pl['p'][-1].get('n') == 'count' and rv is not None]
    if not mc:
        # the same bump spelled anchor.increment_count() (its arithmetic is checked below)
        mc = [(c.pos, E('binop', op='Add', a=c.arg(0), b=E('const', info={'int': 1, 'ty': 'usize'}))) for c in mr.calls(AN + '::increment_count')]
    okmc = len(mc) == 1 and mc[0][1].kind == 'binop' and mc[0][1].op == 'Add' and mc[0][1].b.is_const_int(1) and \
        any(v is True and e.strip().kind == 'call' and e.strip().op.endswith('ptr_eq') and len(e.strip().args) == 2
            and any(any(n.kind == 'proj' and n.info.get('n') == 'chunk' for n in x.walk()) and 1 in x.params()
                    and y.strip().kind == 'param' and y.strip().info['i'] == 2
                    for x, y in ((e.strip().args[0], e.strip().args[1]), (e.strip().args[1], e.strip().args[0])))   # ptr_eq is symmetric
            for e, v, ed in mr.facts_at(mc[0][0].bb))
    cx.check(okmc, 'merge-same-chunk-only', mr, None, 'merge_ref_or_create bumps an existing anchor only where Arc::ptr_eq(anchor.chunk, chunk) held', fail_detail='an existing anchor is reused for a different chunk')
    # exact count arithmetic of the three count methods
    dc = prog.fn(AN + '::decrement_count')
    st = [(pos, dc.rvalue_expr(rv).strip()) for pos, pl, rv in dc.stores() if pl['p'] and pl['p'][-1].get('n') == 'count' and rv is not None]
    r = dc.local_expr(0, []).strip()
    okd = len(st) == 1 and st[0][1].kind == 'binop' and st[0][1].op == 'Sub' and is_param_field(st[0][1].a, 'count') and is_call(st[0][1].b, 'Ord::min') and \
        r.kind == 'binop' and r.op == 'Sub' and r.a.strip().kind == 'param' and show(r.b.strip()) == show(st[0][1].b.strip())
    if okd:
        mn = st[0][1].b.strip()
        okd = any(is_param_field(a, 'count') for a in mn.args) and any(a.strip().kind == 'param' and a.strip().info['i'] == 2 for a in mn.args)
    if not okd and len(st) == 1:
        # the same arithmetic without the intermediate minimum: excess = n.saturating_sub(count) taken *before*
        # count = count.saturating_sub(n)
        v = st[0][1]
        okd = is_call(v, 'saturating_sub') and is_param_field(v.args[0], 'count') and v.args[1].strip().kind == 'param' and v.args[1].strip().info['i'] == 2 and \
            is_call(r, 'saturating_sub') and r.args[0].strip().kind == 'param' and r.args[0].strip().info['i'] == 2 and is_param_field(r.args[1], 'count') and \
            r.pos is not None and dc.pos_dominates(r.pos, st[0][0]) and r.pos != st[0][0]
    cx.check(okd, 'decrement-arithmetic', dc, None, 'take = min(count, n); count -= take; return n - take', fail_detail='decrement_count is not (count -= min(count, n); n - min(count, n))')
    ic = prog.fn(AN + '::increment_count')
    st = [(pos, ic.rvalue_expr(rv).strip()) for pos, pl, rv in ic.stores() if pl['p'] and pl['p'][-1].get('n') == 'count' and rv is not None]
    cx.check(len(st) == 1 and st[0][1].kind == 'binop' and st[0][1].op == 'Add' and is_param_field(st[0][1].a, 'count') and st[0][1].b.is_const_int(1), 'increment-arithmetic', ic, None,
             'count += 1', fail_detail='increment_count is not count += 1')
    # the bump pointer is rewound by exactly the released slice, which must end at the bump pointer
    rel = prog.fn(AC + '::release_or_die')
    st = [(pos, rel.rvalue_expr(rv).strip()) for pos, pl, rv in rel.stores() if pl['p'] and pl['p'][-1].get('n') == 'bump' and rv is not None]
    okr = len(st) == 1 and is_call(st[0][1], 'sub') and is_param_field(st[0][1].args[0], 'bump') and st[0][1].args[1].has_call('ioslice_components')
    if okr:
        okr = any((rr := as_relation((e, v))) and rr[0] == 'Eq' and field_or_accessor(prog, rr[1], 'bump') and rr[2].strip().kind == 'binop' and rr[2].strip().op == 'Add'
                  and rr[2].has_call('ioslice_components') for e, v, ed in rel.facts_at(st[0][0].bb))
    cx.check(okr, 'rewind-exact', rel, None, 'bump -= len only where bump == base + len of the released slice (asserted)', fail_detail='release_or_die rewinds the bump pointer without checking that the slice ends at it')
    ch = prog.adt(CH)
    cx.check(all(not f['vis'].startswith('Public') for f in ch['variants'][0]['fields']), 'chunk-private', None, '%s:%s' % (ch['file'], ch['line']), 'Chunk fields are private')


def r5_9(cx):
    """distinct allocations never overlap: allocation caches are never shared or duplicated and clones copy anchors and their counts memberwise (R20.1, bump writers of R20.2, R20.3)"""
    from . import c20
    sub = cx.__class__(cx.prog, cx.profile, cx.prop)
    for rid, f in (('R20.1', c20.r20_1), ('R20.2', c20.r20_2), ('R20.3', c20.r20_3), ('R20.4', c20.r20_4)):
        sub.rule = rid
        f(sub)
    for rec in sub.records:
        if rec['instance'].startswith('R5.6:'):
            continue
        rec = dict(rec)
        rec['instance'] = rec['rule'] + ':' + rec['instance']
        rec['rule'] = cx.rule
        cx.records.append(rec)


RULES = [('R5.1', r5_1), ('R5.2', r5_2), ('R5.3', r5_3), ('R5.4', r5_4), ('R5.6', r5_6), ('R5.7', r5_7), ('R5.8', r5_8), ('R5.9', r5_9)]
RULES.append(('R5.10', scan_rule(('owning_iovec::',))))
FLOORS['R5.10'] = 1
