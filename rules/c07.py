"""C07 — HCOBS wire format: constants, production parameters, header codec, decoder validation guards."""
from .util import *  # noqa: F401,F403
from engine.woodlint.db import Pos, as_relation, show, Unrecognised
from engine.woodlint.skeleton import skeleton, diff
from . import c02

PROPERTY = 'C07'

EXPLANATION = """
Static analysis of hcobs::{lib, encoder, decoder}.  This is the property whose test gap ("a change that shifts a
limit or the radix on both sides keeps every round-trip test green") is a pure constant / shape question.
Decided: (R7.1) by compile-time evaluation RADIX = 253, STUFF_SEQUENCE = [0xFE, 0xFD], PROD_PARAMS =
(252, 64008) = (RADIX-1, RADIX^2-1), and no other Parameters constant exists in the library build; (R7.2)
every state-machine call made by hcobs::Encoder / hcobs::Decoder passes the constant PROD_PARAMS, inside the
state machines a Parameters operand is always the forwarded parameter, EncoderState::default reads
PROD_PARAMS.max_initial_size; (R7.3) header codec: the first header is a 1-byte and later headers a 2-byte
placeholder, the first chunk is limited by max_initial_size and later ones by max_subsequent_size on both
sides, the encoder's digits are [size % RADIX, size / RADIX] (little-endian) and the bytes written are
header[0..backref.len()], the decoder recombines first + second * RADIX; (R7.4) decoder validation: each
DecodingError variant is built exactly on the failing edge of its guard (size > max_initial, byte >= RADIX
for both header bytes, size > max_subsequent), the implicit-stuff flag is size < max, an empty chunk goes back
to BeforeChunk and a non-empty one to InChunk with remaining = size, BeforeChunk re-inserts STUFF_SEQUENCE
exactly when the flag is set, InChunk consumes min(len, remaining) and leaves on remaining == consumed,
terminate returns Ok only from BeforeChunk with the flag set, and the dispatch of decode_borrow/decode_copy
has an explicit arm per DecoderState variant.
NOT decided: greedy chunk boundaries and equality of the accept set with an independent reference decoder
(value-level); panic-freedom of the decoder beyond these guards.
"""

ASSUMPTIONS = ['the canonical format is the one described in the property (252 / 64008 / radix 253 / FE FD)']

FLOORS = {'R7.1': 5, 'R7.2': 6, 'R7.3': 7, 'R7.4': 14, 'R7.5': 7, 'R7.6': 12}   # (R7.6 counts integer casts: `as` respelled `From` removes instances without removing meaning)


def r7_1(cx):
    """wire constants by compile-time evaluation"""
    prog = cx.prog
    radix = prog.const_int('hcobs::RADIX')
    cx.check(radix == 253, 'RADIX', None, 'hcobs::RADIX', '= %d' % radix, fail_detail='RADIX = %d, the format says 253' % radix)
    seq = prog.const_bytes('hcobs::STUFF_SEQUENCE')
    cx.check(seq == bytes([0xFE, 0xFD]), 'STUFF_SEQUENCE', None, 'hcobs::STUFF_SEQUENCE', '= %s' % seq.hex(), fail_detail='STUFF_SEQUENCE = %s, the format says fefd' % seq.hex())
    mi = int.from_bytes(prog.const_field('hcobs::PROD_PARAMS', 'max_initial_size'), 'little')
    ms = int.from_bytes(prog.const_field('hcobs::PROD_PARAMS', 'max_subsequent_size'), 'little')
    cx.check(mi == 252 and mi == radix - 1, 'max_initial_size', None, 'hcobs::PROD_PARAMS', '= %d = RADIX-1' % mi, fail_detail='PROD_PARAMS.max_initial_size = %d, expected 252 = RADIX-1' % mi)
    cx.check(ms == 64008 and ms == radix * radix - 1, 'max_subsequent_size', None, 'hcobs::PROD_PARAMS', '= %d = RADIX^2-1' % ms,
             fail_detail='PROD_PARAMS.max_subsequent_size = %d, expected 64008 = RADIX^2-1' % ms)
    others = [c['name'] for c in prog.consts.values() if c['crate'] == 'hcobs' and c['ty'].endswith('hcobs::Parameters') and not c['name'].endswith('PROD_PARAMS')]
    cx.check(not others, 'only-prod-params', None, 'hcobs', 'PROD_PARAMS is the only Parameters constant in the library build', fail_detail='other Parameters constants: %s' % others)


def r7_2(cx):
    """production entry points use PROD_PARAMS; the state machines only forward their parameter"""
    prog = cx.prog
    n_entry = 0
    for fn in prog.fns.values():
        if fn.crate != 'hcobs':
            continue
        for cs in fn.calls():
            for i, a in enumerate(cs.t['args']):
                ty = ''
                if a['k'] in ('copy', 'move') and not a['pl']['p']:
                    ty = fn.locals[a['pl']['l']]
                elif a['k'] == 'const':
                    ty = a.get('ty', '')
                if ty != 'hcobs::Parameters':
                    continue
                cx.count_sites()
                e = cs.arg(i).strip()
                in_sm = ('::encoder::' in fn.name) or ('::decoder::' in fn.name)
                if named_const(e, 'PROD_PARAMS'):
                    n_entry += 1
                    cx.ok('params@%s->%s' % (short(fn.name), short(cs.callee)), fn, cs.loc(), 'passes the constant PROD_PARAMS')
                elif in_sm and e.kind == 'param':
                    cx.ok('forward@%s->%s' % (short(fn.name), short(cs.callee)), fn, cs.loc(), 'forwards its own Parameters argument')
                elif in_sm and e.kind == 'proj' and e.a.strip().kind == 'param' and '{closure' in fn.name:
                    cx.ok('forward@%s->%s' % (short(fn.name), short(cs.callee)), fn, cs.loc(), 'forwards a captured Parameters')
                else:
                    cx.fail('params@%s->%s' % (short(fn.name), short(cs.callee)), fn, cs.loc(), 'Parameters operand is %s: neither PROD_PARAMS nor the forwarded parameter' % show(e)[:100])
    cx.check(n_entry >= 5, 'entry-sites', None, 'hcobs/src/lib.rs', '%d entry-point calls pass PROD_PARAMS' % n_entry, fail_detail='only %d entry-point calls pass PROD_PARAMS (5 expected)' % n_entry)
    d = prog.fn('<hcobs::encoder::EncoderState as std::default::Default>::default')
    r = d.local_expr(0, []).strip()
    ok = r.kind == 'agg' and any(named_const(n, 'PROD_PARAMS') or (n.kind == 'proj' and named_const(n.a, 'PROD_PARAMS') and n.info.get('n') == 'max_initial_size') for n in r.args[0].walk())
    ok = ok and r.args[0].strip().kind == 'proj' and r.args[0].strip().info.get('n') == 'max_initial_size'
    cx.check(ok, 'default-state', d, None, 'EncoderState::default starts with PROD_PARAMS.max_initial_size', fail_detail='default max_chunk_size is %s' % show(r.args[0])[:80])


def _limit_field(e):
    """params.<field> (possibly through Into::into / NonZero::get): returns field name"""
    for n in e.walk():
        if n.kind == 'proj' and n.op == 'field' and n.info.get('n') in ('max_initial_size', 'max_subsequent_size') and n.a.strip().kind == 'param':
            return n.info['n']
    return None


def r7_3(cx):
    """header codec: 1-byte / 2-byte placeholders, per-chunk limits on both sides, little-endian radix-253 digits"""
    prog = cx.prog
    ES = 'hcobs::encoder::EncoderState'
    adt = prog.adt(ES)
    fields = [f['n'] for f in adt['variants'][0]['fields']]
    for name, nbytes, limit in ((ES + '::new', 1, 'max_initial_size'), (ES + '::new_subsequent', 2, 'max_subsequent_size')):
        fn = prog.fn(name)
        rp = list(fn.calls('OwningIovec::register_patch'))
        cx.require(len(rp) == 1, '%s no longer registers exactly one placeholder' % name)
        c = rp[0].arg(1).strip()
        got = None
        for k in c.consts():
            if k.info.get('ref_bytes') is not None:
                got = len(bytes.fromhex(k.info['ref_bytes']))
        cx.check(got == nbytes, 'placeholder:' + short(name), fn, rp[0].loc(), '%d-byte header placeholder' % nbytes,
                 fail_detail='%s registers a %s-byte placeholder, the format needs %d' % (short(name), got, nbytes))
        r = fn.local_expr(0, []).strip()
        i = fields.index('max_chunk_size')
        cx.check(r.kind == 'agg' and _limit_field(r.args[i]) == limit, 'limit:' + short(name), fn, None, 'max_chunk_size = params.%s' % limit,
                 fail_detail='%s limits the chunk by %s' % (short(name), show(r.args[i])[:60] if r.kind == 'agg' else '?'))
    # consume_once opens later chunks with new_subsequent only
    co = prog.fn(ES + '::consume_once')
    opens = [cs for cs in co.calls() if cs.matches(ES + '::new') or cs.matches(ES + '::new_subsequent')]
    cx.check(len(opens) == 1 and opens[0].matches(ES + '::new_subsequent'), 'later-chunks', co, None, 'a closed chunk is followed by new_subsequent',
             fail_detail='consume_once opens chunks with %s' % [short(c.callee) for c in opens])
    eh = prog.fn(ES + '::encode_header')
    bf = list(eh.calls('OwningIovec::backfill_or_panic'))
    cx.require(len(bf) == 1, 'encode_header no longer backfills exactly once')
    src = bf[0].arg(2).strip()
    ok = is_call(src, 'Index<I>>::index')
    digits = None
    if ok:
        arr, rng = src.args[0].strip(), src.args[1].strip()
        ok = arr.kind == 'agg' and arr.info.get('ak') == 'array' and len(arr.args) == 3 and rng.kind == 'agg' and \
            ((len(rng.args) == 2 and show(rng).startswith('Range{') and rng.args[0].is_const_int(0) and is_call(rng.args[1], 'Backref::len')) or
             (len(rng.args) == 1 and show(rng).startswith('RangeTo{') and is_call(rng.args[0], 'Backref::len')))
        if ok:
            d0, d1 = arr.args[0].strip(), arr.args[1].strip()
            ok = d0.kind == 'binop' and d0.op == 'Rem' and d0.a.strip().kind == 'param' and const_is(prog, d0.b, 'hcobs::RADIX') and \
                d1.kind == 'binop' and d1.op == 'Div' and d1.a.strip().kind == 'param' and const_is(prog, d1.b, 'hcobs::RADIX') and arr.args[2].is_const_int(0)
    cx.check(ok, 'encoder-digits', eh, bf[0].loc(), 'backfill header[0..backref.len()] with header = [size % RADIX, size / RADIX, 0]',
             fail_detail='the header bytes are %s' % show(src)[:200])
    mh = prog.fn('hcobs::decoder::MidHeader::decode')
    okd = False
    for b in mh.live_blocks():
        e = mh.switch_expr(b) if mh.term(b)['k'] == 'switch' else None
        rel = as_relation((e, True)) if e is not None else None
        if rel and rel[0] == 'Gt' and _limit_field(rel[2]) == 'max_subsequent_size':
            s = rel[1].strip()
            for a, m in commuted(s, 'Add'):
                for x, k in commuted(m, 'Mul'):
                    if const_is(prog, k, 'hcobs::RADIX') and x.kind == 'proj' and x.op == 'index' and a.kind == 'proj' and a.info.get('n') == 'initial_byte':
                        okd = True
    cx.check(okd, 'decoder-recombine', mh, None, 'size = initial_byte + second_byte * RADIX', fail_detail='MidHeader does not recombine first + second * RADIX')
    ins = prog.fn('hcobs::decoder::InitialState::decode')
    lim = None
    for b in ins.live_blocks():
        e = ins.switch_expr(b) if ins.term(b)['k'] == 'switch' else None
        rel = as_relation((e, True)) if e is not None else None
        if rel and rel[0] == 'Gt' and _limit_field(rel[2]):
            lim = _limit_field(rel[2])
    cx.check(lim == 'max_initial_size', 'decoder-first-limit', ins, None, 'the first header is limited by max_initial_size', fail_detail='first header limited by %s' % lim)


def _err_sites(fn):
    out = {}
    for pos, st in fn.statements():
        if st['k'] == 'assign' and st['rv']['k'] == 'agg' and st['rv']['name'].endswith('decoder::DecodingError'):
            out.setdefault(st['rv']['variant'], []).append(pos)
    return out


def _state_sites(fn):
    out = {}
    for pos, st in fn.statements():
        if st['k'] == 'assign' and st['rv']['k'] == 'agg' and st['rv']['name'].endswith('decoder::DecoderState'):
            out.setdefault(st['rv']['variant'], []).append((pos, fn.rvalue_expr(st['rv']).strip()))
    return out


def _guard(cx, fn, variant, pred, what):
    sites = _err_sites(fn).get(variant, [])
    cx.count_sites()
    if len(sites) != 1:
        cx.fail('guard:%s@%s' % (variant, short(fn.name)), fn, None, '%d sites build DecodingError::%s (the check is gone or duplicated)' % (len(sites), variant))
        return
    pos = sites[0]
    rels = [as_relation((e, v)) for e, v, ed in fn.facts_at(pos.bb)]
    rels = [r for r in rels if r and not (is_call(r[1], 'is_empty'))]
    ok = any(pred(r) for r in rels)
    cx.check(ok, 'guard:%s@%s' % (variant, short(fn.name)), fn, fn.loc(pos.bb), '%s => Err(%s)' % (what, variant),
             fail_detail='Err(%s) is built under %s, expected %s' % (variant, [(r[0], show(r[1])[:40], show(r[2])[:40]) for r in rels], what))
    # the check cannot be bypassed: every Ok(..) of this function is built under the negated guard
    neg = {'Gt': 'Le', 'Ge': 'Lt'}
    oks = [p for p, st in fn.statements() if st['k'] == 'assign' and st['pl']['l'] == 0 and st['rv']['k'] == 'agg' and st['rv']['variant'] == 'Ok']
    rets = [cs for cs in fn.calls() if cs.t['dest']['l'] == 0 and not cs.t['dest']['p'] and 'from_residual' not in cs.callee]
    bad = []
    for p in oks + [cs.pos for cs in rets]:
        rr = [as_relation((e, v)) for e, v, ed in fn.facts_at(p.bb)]
        rr = [r for r in rr if r]
        if not any(r[0] in neg.values() and pred((dict((v, k) for k, v in neg.items())[r[0]], r[1], r[2])) for r in rr):
            bad.append(p)
    cx.check(not bad, 'unbypassable:%s@%s' % (variant, short(fn.name)), fn, fn.loc(bad[0].bb) if bad else fn.loc(pos.bb),
             'every Ok(..) of %s is built on the passing side of this check (%d sites)' % (short(fn.name), len(oks) + len(rets)),
             fail_detail='%s can return Ok without having passed the `%s` check (a fast path around the validation)' % (short(fn.name), what))
    return pos


def _is_byte0(e):
    e = e.strip()
    return e.kind == 'proj' and e.op == 'index' and e.b is not None and e.b.is_const_int(0) and e.a.strip().kind == 'param'


def r7_4(cx):
    """decoder validation guards, flags, transitions, termination, exhaustive dispatch"""
    prog = cx.prog
    D = 'hcobs::decoder::'
    ins, bc, mh = prog.fn(D + 'InitialState::decode'), prog.fn(D + 'BeforeChunk::decode'), prog.fn(D + 'MidHeader::decode')
    _guard(cx, ins, 'InvalidInitialSizeHeader', lambda r: r[0] == 'Gt' and _is_byte0(r[1]) and _limit_field(r[2]) == 'max_initial_size', 'input[0] > max_initial_size')
    _guard(cx, bc, 'InvalidHeaderByte', lambda r: r[0] == 'Ge' and _is_byte0(r[1]) and const_is(prog, r[2], 'hcobs::RADIX'), 'input[0] >= RADIX')
    _guard(cx, mh, 'InvalidHeaderByte', lambda r: r[0] == 'Ge' and _is_byte0(r[1]) and const_is(prog, r[2], 'hcobs::RADIX'), 'input[0] >= RADIX')
    _guard(cx, mh, 'InvalidSubsequentSizeHeader', lambda r: r[0] == 'Gt' and r[1].strip().kind == 'binop' and r[1].strip().op == 'Add'
           and _limit_field(r[2]) == 'max_subsequent_size', 'size > max_subsequent_size')
    # flags and transitions in InitialState / MidHeader
    for fn, limit in ((ins, 'max_initial_size'), (mh, 'max_subsequent_size')):
        ss = _state_sites(fn)
        for variant in ('InChunk', 'BeforeChunk'):
            cx.count_sites()
            if len(ss.get(variant, [])) != 1:
                cx.fail('transition:%s@%s' % (variant, short(fn.name)), fn, None, 'expected one %s transition' % variant)
                continue
            pos, e = ss[variant][0]
            inner = e.args[0].strip()
            flag = inner.args[-1].strip()
            okflag = flag.kind == 'binop' and flag.op == 'Lt' and _limit_field(flag.b) == limit
            rels = [as_relation((x, v)) for x, v, ed in fn.facts_at(pos.bb)]
            rels = [r for r in rels if r]
            if variant == 'InChunk':
                pos_ok = any((r[0] == 'Gt' or r[0] == 'Ne') and r[2].is_const_int(0) for r in rels)   # sizes are unsigned
                rem = inner.args[0].strip()
                rem_ok = rem.has_call('NonZero::new') and show(flag.a.strip()) in show(rem)
                cx.check(okflag and pos_ok and rem_ok, 'transition:InChunk@' + short(fn.name), fn, fn.loc(pos.bb),
                         'size > 0 => InChunk{remaining: size, flag: size < %s}' % limit,
                         fail_detail='InChunk transition: flag %s, guarded by size > 0: %s, remaining = size: %s' % (show(flag)[:80], pos_ok, rem_ok))
            else:
                zero_ok = any((r[0] == 'Le' or r[0] == 'Eq') and r[2].is_const_int(0) for r in rels)
                cx.check(okflag and zero_ok, 'transition:BeforeChunk@' + short(fn.name), fn, fn.loc(pos.bb),
                         'size == 0 => BeforeChunk{flag: size < %s}' % limit,
                         fail_detail='BeforeChunk transition: flag %s, guarded by size == 0: %s' % (show(flag)[:80], zero_ok))
    # BeforeChunk re-inserts the stuff sequence exactly when the flag is set
    pc = list(bc.calls('OwningIovec::push_copy'))
    okp = len(pc) == 1 and any(v is True and x.strip().kind == 'proj' and x.strip().info.get('n') == 'should_insert_stuff_sequence' for x, v, ed in bc.facts_at(pc[0].bb))
    okp = okp and any(k.info.get('ref_bytes') == cx.prog.const_bytes('hcobs::STUFF_SEQUENCE').hex() or named_const(k, 'STUFF_SEQUENCE') for k in pc[0].arg(1).consts())
    cx.check(okp, 'implicit-stuff', bc, pc[0].loc() if pc else None, 'push_copy(&STUFF_SEQUENCE) exactly on should_insert_stuff_sequence',
             fail_detail='the implicit stuff sequence is not re-inserted under the flag')
    # InChunk
    upd = prog.fn(D + 'InChunk::update')
    ss = _state_sites(upd)
    ok_u = False
    if len(ss.get('InChunk', [])) == 1 and len(ss.get('BeforeChunk', [])) == 1:
        p_in, p_bc = ss['InChunk'][0][0], ss['BeforeChunk'][0][0]
        r_in = [as_relation((x, v)) for x, v, ed in upd.facts_at(p_in.bb)]
        r_bc = [as_relation((x, v)) for x, v, ed in upd.facts_at(p_bc.bb)]
        lt = any(r and r[0] == 'Lt' and r[1].strip().kind == 'param' and r[2].has_call('NonZero::get') for r in r_in)
        eq = any(r and r[0] == 'Eq' for r in r_bc) and any(r and r[0] == 'Ge' and r[1].strip().kind == 'param' for r in r_bc)
        flag = ss['BeforeChunk'][0][1].args[0].strip().args[0].strip()
        ok_u = lt and eq and flag.kind == 'proj' and flag.info.get('n') == 'terminate_with_stuff_sequence'
    if ok_u:
        nr = ss['InChunk'][0][1]
        rem = [pos for pos, st in upd.statements() if st['k'] == 'assign' and st['pl']['p'] and st['pl']['p'][-1].get('n') == 'remaining']
        okrem = False
        for pos in rem:
            v = upd.rvalue_expr(upd.blocks[pos.bb]['st'][pos.idx]['rv'])
            for n in v.walk():
                if n.kind == 'binop' and n.op == 'Sub' and n.a.has_call('NonZero::get') and any(x.kind == 'param' and x.info['i'] == 2 for x in n.b.walk()):
                    okrem = True
        ok_u = okrem
    cx.check(ok_u, 'in-chunk-update', upd, None, 'consumed < remaining stays InChunk with remaining -= consumed; consumed == remaining (asserted) goes to BeforeChunk{flag}',
             fail_detail='InChunk::update does not leave the chunk exactly when remaining == consumed with the stored flag')
    for nm in ('decode_borrow', 'decode_copy'):
        f = prog.fn(D + 'InChunk::' + nm)
        pushes = [cs for cs in f.calls() if cs.matches('OwningIovec::push') or cs.matches('OwningIovec::push_copy')]
        ok_c = len(pushes) == 1
        if ok_c:
            a = pushes[0].arg(1).strip()
            ok_c = is_call(a, 'Index<I>>::index') and is_call(a.args[1].strip().args[0] if a.args[1].strip().kind == 'agg' else a, 'Ord::min')
            if ok_c:
                mn = a.args[1].strip().args[0].strip()
                ok_c = any(is_call(x, 'len') for x in mn.args) and any(x.has_call('NonZero::get') for x in mn.args)
        cx.check(ok_c, 'in-chunk-consume:' + nm, f, None, 'pushes input[..min(len, remaining)]', fail_detail='InChunk::%s does not consume min(len, remaining)' % nm)
    # terminate
    tm = prog.fn(D + 'DecoderState::terminate')
    adt = prog.adt(D + 'DecoderState')
    vnames = [v['name'] for v in adt['variants']]
    oks = [pos for pos, st in tm.statements() if st['k'] == 'assign' and st['pl']['l'] == 0 and st['rv']['k'] == 'agg' and st['rv']['variant'] == 'Ok']
    ok_t = len(oks) == 1
    if ok_t:
        facts = tm.facts_at(oks[0].bb)
        in_bc = any(e.kind == 'discr' and e.a.strip().kind == 'param' and v == ('in', frozenset([vnames.index('BeforeChunk')])) for e, v, ed in facts)
        flag = any(v is True and e.strip().kind == 'proj' and e.strip().info.get('n') == 'should_insert_stuff_sequence' for e, v, ed in facts)
        ok_t = in_bc and flag
    cx.check(ok_t, 'terminate', tm, None, 'Ok only from BeforeChunk with should_insert_stuff_sequence set (the message ended on a short chunk)',
             fail_detail='terminate accepts a stream that does not end on a short chunk')
    # exhaustive dispatch
    for nm in ('decode_borrow', 'decode_copy'):
        f = prog.fn(D + 'DecoderState::' + nm)
        sw = [b for b in f.live_blocks() if f.term(b)['k'] == 'switch' and f.switch_expr(b).kind == 'discr' and f.switch_expr(b).a.strip().kind in ('param', 'phi')
              and 'DecoderState' in (f.locals[f.term(b)['d']['pl']['l']] if f.term(b)['d']['k'] in ('copy', 'move') else '') or
              (f.term(b)['k'] == 'switch' and len(f.term(b)['ts']) == len(vnames))]
        ok_d = False
        for b in sw:
            vals = {int(v) for v, t in f.term(b)['ts']}
            if vals == set(range(len(vnames))):
                targets = {t for v, t in f.term(b)['ts']}
                ok_d = len(targets) == len(vnames)
        cx.check(ok_d, 'dispatch:' + nm, f, None, 'one arm per DecoderState variant (%s)' % ', '.join(vnames), fail_detail='the dispatch does not have a separate arm for each of %s' % vnames)
    a, b2 = prog.fn(D + 'DecoderState::decode_borrow'), prog.fn(D + 'DecoderState::decode_copy')
    sub = {'decode_borrow': 'decode_X', 'decode_copy': 'decode_X'}
    dd = diff(skeleton(a, sub, canonical=True), skeleton(b2, sub, canonical=True))
    cx.check(dd is None, 'dispatch-twins', a, None, 'decode_borrow and decode_copy have the same skeleton', fail_detail='decode_borrow / decode_copy diverge at %s' % (dd,))


def r7_5(cx):
    """greedy chunking rests on find_stuff_sequence being an exhaustive in-order scan, on the truncated window, and on the one-byte hold-back across calls (R2.6, R2.3, R2.2)"""
    sub = cx.__class__(cx.prog, cx.profile, cx.prop)
    for rid, f in (('R2.6', c02.r2_6), ('R2.3', c02.r2_3), ('R2.2', c02.r2_2)):
        sub.rule = rid
        try:
            f(sub)
        except Unrecognised as e:
            sub.unrecognised('anchor', detail='rule cannot be evaluated on this tree: %s' % e)
    for r in sub.records:
        r = dict(r)
        r['instance'] = r['rule'] + ':' + r['instance']
        r['rule'] = cx.rule
        cx.records.append(r)


def r7_6(cx):
    """lengths are never silently truncated: every narrowing integer cast in the codec is proved lossless or audited; a chunk step consumes min(input.len(), remaining)"""
    from engine.woodlint.core import table
    from engine.woodlint.linear import PathEval, int_range
    prog = cx.prog
    audited = table('c07_casts')
    fns = [f for f in prog.fns.values() if f.crate == 'hcobs' and (f.kind == 'Closure' or (not f.d.get('derived') and 'fmt::' not in f.name))]
    lossless_casts(cx, fns, audited, 'a length or count truncated this way makes the codec depend on how the input was split')
    # the two chunk steps consume min(input.len(), remaining as usize)
    for nm in ('decode_borrow', 'decode_copy'):
        f = prog.fn('hcobs::decoder::InChunk::' + nm)
        up = list(f.calls('hcobs::decoder::InChunk::update'))
        okm = False
        if len(up) == 1:
            n = up[0].arg(1).strip()
            if is_call(n, 'Ord::min') and len(n.args) == 2:
                a = [x.strip() for x in n.args]
                okm = any(is_call(x, 'len') and x.args[0].strip().kind == 'param' for x in a) and \
                    any(is_call(x, 'NonZero::get') and any(is_param_field(y, 'remaining') for y in x.walk()) for x in a)
        cx.check(okm, 'chunk-step:' + nm, f, up[0].loc() if up else None, 'update(min(input.len(), remaining as usize))',
                 fail_detail='InChunk::%s does not consume min(input.len(), remaining as usize)' % nm)


def r7_7(cx):
    """what the codec stands on: a consumer cannot remove the still-open chunk header (R4.1-R4.3); no read size panics the allocator under encode_read / decode_read (R17.7)"""
    from . import c04, c17
    from . import c03
    compose(cx, [('R4.1', c04.r4_1), ('R4.2', c04.r4_2), ('R4.3', c04.r4_3), ('R4.5', c04.r4_5), ('R3.3', c03.r3_3), ('R17.7', c17.r17_7)])


RULES = [('R7.1', r7_1), ('R7.2', r7_2), ('R7.3', r7_3), ('R7.4', r7_4), ('R7.5', r7_5), ('R7.6', r7_6), ('R7.7', r7_7)]
RULES.append(('R7.8', scan_rule(('hcobs::',))))
FLOORS['R7.8'] = 1
