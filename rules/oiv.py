"""Anchors shared by the owning_iovec properties (C03, C04, C05, C09, C10, C20)."""
from .util import *  # noqa: F401,F403

OI = 'owning_iovec::implementation::OwningIovec'
CI = 'owning_iovec::implementation::ConsumingIovec'
SI = 'owning_iovec::implementation::StableIovec'
GD = 'owning_iovec::global_deque::GlobalDeque'
BA = 'owning_iovec::byte_arena::ByteArena'
AS = 'owning_iovec::byte_arena::AnchoredSlice'
AN = 'owning_iovec::byte_arena::anchor::Anchor'
AC = 'owning_iovec::byte_arena::alloc_cache::AllocCache'
CH = 'owning_iovec::byte_arena::anchor::Chunk'
SD = 'sliding_deque::sorted_deque::SortedDeque'
SL = 'sliding_deque::sliding_deque::SlidingDeque'


def fns_of_crate(prog, crate):
    return sorted([f for f in prog.fns.values() if f.crate == crate], key=lambda f: f.name)


def ret_type(fn):
    return fn.locals[0] if fn.locals else ''


def agg_sites(fn, adt_key_suffix=None, variant=None, local=None):
    out = []
    for pos, st in fn.statements():
        if st['k'] == 'assign' and st['rv']['k'] == 'agg':
            if adt_key_suffix and not st['rv']['name'].endswith(adt_key_suffix):
                continue
            if variant and st['rv']['variant'] != variant:
                continue
            if local is not None and st['pl']['l'] != local:
                continue
            out.append((pos, fn.rvalue_expr(st['rv']).strip()))
    return out
