"""C18 — AtomicBaseTime readers and try_update never wait for a writer (all clauses are shapes)."""
import re
from .util import *  # noqa: F401,F403
from .abt import ABT
from engine.woodlint.core import table
from engine.woodlint.db import Fn, Pos, as_relation, show

PROPERTY = 'C18'

EXPLANATION = """
Static effect / reachability analysis over the resolved call graph and CFGs of vouched_time.  Decided:
(R18.1) from snapshot, BaseTime::snapshot, AtomicBaseTime::sequence and nfs_voucher::get_base_time_unlocked
no blocking primitive (Mutex/RwLock/Condvar/Once/thread/fs/io/net/process ...) is reachable in the call
graph, every external callee is classified in tables/nonblocking_allow.json (unclassified = failure), and
no value with drop glue is dropped in them (a guard drop would be an unlock); (R18.2) the lock field is
mentioned only by new, update, try_update (and the derived Debug); (R18.3) try_update reaches
Mutex::try_lock and never Mutex::lock, calls the publisher only on the Ok edge of try_lock, returns the
constant false on both Err edges, and try_update, the publisher, BaseTime::update and BaseTime::snapshot
have acyclic CFGs (bounded steps); (R18.4) snapshot has a single loop, which becomes acyclic once the
`sequence changed` edge is removed, the compared value is re-loaded inside the loop, and everything
called inside the loop is loop-free — with R13.5 (only a completed publication changes the sequence) a
reader retries only when a write completed during its read.
"""

ASSUMPTIONS = [
    'std atomics are wait-free on the analysed 64-bit target; Mutex::try_lock never blocks',
    'raffle::CheckingParameters::check is a pure const fn (table entry, version pinned by Cargo.lock)',
]

FLOORS = {'R18.1': 8, 'R18.2': 3, 'R18.3': 6, 'R18.4': 5}

BLOCKING = ['std::sync::Mutex', 'std::sync::RwLock', 'std::sync::Condvar', 'std::sync::Barrier', 'std::sync::Once',
            'std::sync::LazyLock', 'std::sync::OnceLock', 'std::sync::mpsc', 'std::sync::mpmc', 'std::sync::ReentrantLock',
            'std::sync::poison', 'std::sync::nonpoison',
            'std::thread::', 'std::fs::', 'std::io::', 'std::net::', 'std::process::', 'std::os::', 'std::time::',
            'std::env::', 'std::path::', 'std::sys::', 'MutexGuard', 'RwLockReadGuard', 'RwLockWriteGuard', 'std::thread_local',
            'std::thread::LocalKey']


def is_blocking(name):
    return any(b in name for b in BLOCKING)


def classify_external(name, allow):
    if name in allow['exact']:
        return allow['exact'][name]
    for p, why in allow['prefix'].items():
        if name.startswith(p):
            return why
    return None


def readers(cx, m):
    prog = cx.prog
    return [m.snapshot, m.slot_snapshot, prog.fn(m.adt['name'] + '::sequence'), prog.fn('nfs_voucher::get_base_time_unlocked')]


def r18_1(cx):
    """nothing reachable from a lock-free reader can block; all external callees classified; no drop glue"""
    m = ABT(cx)
    allow = table('nonblocking_allow')
    for fn in readers(cx, m):
        local, ext, parent = cx.prog.may_call_star(fn)
        cx.count_sites(len(local) + len(ext))
        bad = sorted(n for n in ext if is_blocking(n))
        cx.check(not bad, 'no-blocking-callee', fn, None, 'may_call* = %d local bodies + %d external callees, none blocking'
                 % (len(local), len(ext)),
                 fail_detail='blocking primitive reachable: %s' % '; '.join('%s via %s' % (n, cx.prog.call_chain(parent, ext[n])) for n in bad))
        unk = sorted(n for n in ext if not is_blocking(n) and classify_external(n, allow) is None)
        cx.check(not unk, 'externals-classified', fn, None, 'external callees: %s' % ', '.join(sorted(short(n) for n in ext)),
                 fail_detail='unclassified external callee(s) %s (add to tables/nonblocking_allow.json with a reason if harmless)' % unk)
        drops = []
        for f in local:
            for b in f.live_blocks():
                t = f.term(b)
                if t['k'] == 'drop' and t.get('needs_drop'):
                    drops.append('%s: drop of %s' % (short(f.name), t.get('ty')))
        cx.check(not drops, 'no-drop-glue', fn, None, 'no value with drop glue is dropped in the reader or its local callees',
                 fail_detail='drop glue runs in a reader: %s' % drops)
        # statics touched by readers must be the AtomicBaseTime cell only
        stat = set()
        for f in local:
            for pos, st in f.statements():
                if st['k'] == 'assign':
                    for o in ([st['rv'].get('o')] if st['rv'].get('o') else []) + st['rv'].get('ops', []):
                        if o and o.get('staticp'):
                            stat.add(o['staticp'])
        bad_stat = sorted(s for s in stat if not s.endswith('BASE_TIME'))
        if stat:
            cx.check(not bad_stat, 'statics', fn, None, 'statics read: %s' % sorted(stat), fail_detail='reader touches other statics: %s' % bad_stat)


def r18_2(cx):
    """the writer lock is mentioned only by new, update, try_update (and the derived Debug)"""
    m = ABT(cx)
    users = {}
    for f in cx.prog.fns.values():
        for b in f.live_blocks():
            blk = f.blocks[b]
            places = []
            for st in blk['st']:
                if st['k'] == 'assign':
                    places.append(st['pl'])
                    rv = st['rv']
                    if 'pl' in rv:
                        places.append(rv['pl'])
                    for o in ([rv.get('o'), rv.get('a'), rv.get('b')] + rv.get('ops', [])):
                        if o and o.get('k') in ('copy', 'move'):
                            places.append(o['pl'])
            t = blk['term']
            if t['k'] == 'call':
                places.append(t['dest'])
                for a in t['args']:
                    if a.get('k') in ('copy', 'move'):
                        places.append(a['pl'])
            for pl in places:
                for x in pl['p']:
                    if x['k'] == 'field' and x.get('adt') == m.adt['key'] and x['n'] == m.lock:
                        users.setdefault(f.name, f)
        # aggregates constructing the struct
    allowed = {m.new.name, m.update.name, m.try_update.name}
    for name, f in sorted(users.items()):
        cx.count_sites()
        # (a closure is part of the function it is written in)
        ok = re.sub(r'(::\{closure#\d+\})+$', '', name) in allowed or (f.d.get('derived') and 'Debug' in name)
        cx.check(ok, 'lock-user', f, None, 'mentions self.%s (writer side or derived Debug, which uses try_lock)' % m.lock,
                 fail_detail='function outside {new, update, try_update} touches the writer lock')
    cx.check(m.update.name in users and m.try_update.name in users, 'writers-lock', m.update, None, 'update and try_update both use the lock',
             fail_detail='a writer entry point does not mention the lock: users=%s' % sorted(users))


def r18_3(cx):
    """try_update is wait-free: try_lock not lock, publisher only on the Ok edge, false on Err edges, acyclic CFGs"""
    m = ABT(cx)
    fn = m.try_update
    local, ext, parent = cx.prog.may_call_star(fn)
    has_try = [n for n in ext if n.endswith('Mutex::try_lock')]
    has_lock = [n for n in ext if n.endswith('Mutex::lock') or 'Condvar' in n or 'RwLock' in n or n.startswith('std::thread::')
                or n.startswith('std::fs::') or n.startswith('std::io::')]
    cx.check(bool(has_try) and not has_lock, 'try_lock-only', fn, None, 'reaches Mutex::try_lock and no waiting primitive',
             fail_detail='try_update reaches %s (try_lock present: %s)' % (has_lock, bool(has_try)))
    pubs = list(fn.calls(m.publisher.name))
    cx.require(len(pubs) == 1, 'try_update no longer calls the publisher exactly once')
    pc = pubs[0]
    ok = False
    for e, val, edge in fn.facts_at(pc.bb):
        if e.kind == 'discr' and is_call(e.a, 'Mutex::try_lock') and val == ('in', frozenset([0])):
            ok = True
    if not ok:
        # the same fact by data flow: the write token handed to the publisher is the guard inside try_lock()'s Ok
        # (through whatever Option / helper carries it there): there is no such guard on the Err edges
        tok = pc.arg(1)
        guards = [n for n in tok.walk() if n.kind == 'call' and (n.op.endswith('Mutex::try_lock') or n.op.endswith('Mutex::lock'))]
        from_ok = [n for n in tok.walk() if n.kind == 'proj' and n.op == 'downcast' and n.info.get('n') == 'Ok' and is_call(n.a, 'Mutex::try_lock')]
        ok = bool(guards) and all(g.op.endswith('Mutex::try_lock') for g in guards) and len(from_ok) >= 1 and \
            all(any(g is d.a.strip() or show(g) == show(d.a.strip()) for d in from_ok) for g in guards)
    cx.check(ok, 'publish-on-Ok', fn, pc.loc(), 'the publisher is called only on the Ok edge of try_lock',
             fail_detail='the publisher call is not dominated by try_lock() == Ok')
    # every return not passing the publisher returns constant false
    ret0 = fn.local_expr(0, [])
    alts = phi_alts(ret0)
    others = [a for a in alts if not is_call(a, m.publisher.name)]
    cx.check(others and all(a.is_const_int(0) for a in others), 'false-on-Err', fn, None,
             'all non-publishing returns are the constant false (%d)' % len(others),
             fail_detail='a failing path of try_update does not return false: %s' % [show(a) for a in others])
    for f in (fn, m.publisher, m.slot_update, m.slot_snapshot):
        cx.check(f.is_acyclic(), 'acyclic:' + short(f.name), f, None, 'CFG has no loop', fail_detail='CFG has a loop: unbounded steps')
    unk = sorted(n for n in ext if is_blocking(n) and not n.endswith('Mutex::try_lock') and not n.endswith('Mutex::clear_poison')
                 and 'MutexGuard' not in n)
    cx.check(not unk, 'no-other-blocking', fn, None, 'no other blocking primitive reachable from try_update', fail_detail='reachable: %s' % unk)


def r18_4(cx):
    """snapshot retries only if the sequence changed: one loop, acyclic without the unequal edge, re-load inside the loop"""
    m = ABT(cx)
    fn = m.snapshot
    heads = fn.loop_headers()
    cx.check(len(heads) == 1, 'one-loop', fn, None, 'exactly one loop', fail_detail='%d loops in snapshot' % len(heads))
    if len(heads) != 1:
        return
    body = fn.loop_blocks(heads[0])
    # find the sequence comparison
    cut = None
    for b in sorted(body):
        if fn.term(b)['k'] != 'switch':
            continue
        be = fn.bool_edges(b)
        if be is None:
            continue
        e = fn.switch_expr(b)
        rel = as_relation((e, True))
        if rel and rel[0] in ('Eq', 'Ne'):
            a, c = rel[1], rel[2]
            if all(m.is_seq_load(x) for x in phi_alts(a)) and all(m.is_seq_load(x) for x in phi_alts(c)):
                uneq = be[0] if rel[0] == 'Eq' else be[1]
                cut = (b, uneq, a, c)
    cx.check(cut is not None, 'retry-guard', fn, None, 'the loop is guarded by a comparison of two sequence loads',
             fail_detail='no comparison of two sequence loads inside the retry loop')
    if cut is None:
        return
    b, uneq, a, c = cut
    cx.check(fn.is_acyclic(cut_edges=[(b, uneq)]), 'retry-only-on-change', fn, fn.loc(b),
             'removing the `sequence changed` edge bb%d->bb%d leaves an acyclic CFG' % (b, uneq),
             fail_detail='snapshot can loop without the sequence having changed')
    inside = [x for x in phi_alts(a) + phi_alts(c) if x.strip().pos is not None and x.strip().pos.bb in body]
    cx.check(bool(inside), 'reload-in-loop', fn, fn.loc(b), 'a sequence load happens in every iteration',
             fail_detail='the compared sequence value is never re-loaded inside the loop')
    # both comparands must be refreshed on a retry: a comparand that is only ever the value loaded before the
    # loop can never become equal again once the sequence has moved (the reader then spins with no writer active)
    stale = []
    for side in (a, c):
        alts = phi_alts(side)
        if not any(x.strip().pos is not None and x.strip().pos.bb in body for x in alts):
            stale.append(show(side)[:80])
    cx.check(not stale, 'both-sides-refreshed', fn, fn.loc(b), 'on a retry both compared values come from loads made inside the loop',
             fail_detail='the retry compares against a value loaded before the loop (%s): once the sequence has changed the test can never '
             'succeed again and snapshot spins forever although no write is in progress' % '; '.join(stale))
    callees_in_loop = []
    for cs in fn.calls():
        if cs.bb in body and cs.key in cx.prog.fns:
            callees_in_loop.append(cx.prog.fns[cs.key])
    bad = []
    for f in callees_in_loop:
        local, ext, parent = cx.prog.may_call_star(f)
        for g in local:
            if not g.is_acyclic():
                bad.append(g.name)
    cx.check(not bad, 'loop-free-callees', fn, None, 'everything called inside the loop is loop-free (%d local callees)' % len(callees_in_loop),
             fail_detail='callee with a loop inside the retry loop: %s' % bad)


RULES = [('R18.1', r18_1), ('R18.2', r18_2), ('R18.3', r18_3), ('R18.4', r18_4)]
