"""C20 — a cloned or taken OwningIovec is an independent snapshot: clone drops the allocation cache, raw writers
and bump rewinds are confined, clones are the derives, take/clear move or reset everything."""
from .oiv import *  # noqa: F401,F403
from engine.woodlint.db import Pos, as_relation, show

PROPERTY = 'C20'

EXPLANATION = """
Static analysis of owning_iovec.  Owned bytes are shared between clones through reference counts; independence
rests on nobody being able to write or re-allocate bytes that another clone can see.  Decided: (R20.1) a clone
can never extend or re-allocate shared bytes: <ByteArena as Clone>::clone does not read its argument and
returns Default (no cache), AllocCache and Chunk implement neither Clone nor Copy, and merging requires
containment in the *own* current cache (R5.6, re-evaluated here); (R20.2) who may write arena bytes: the
functions performing raw writes (ptr::copy*, copy_from_nonoverlapping, write_volatile, write_bytes,
from_raw_parts_mut, fill/read on the raw buffer) are exactly {backfill_or_panic (a pending placeholder, R4.5),
ByteArena::copy and read_n/read_n_impl (a fresh bump allocation of the same call), Chunk::drop}; the bump
pointer is written only by AllocCache::{new, alloc_or_die, release_or_die} and release_or_die (the only rewind)
is called only from ByteArena::read_n on the reservation it just made; (R20.3) clone is memberwise: Clone for
OwningIovec, GlobalDeque, Anchor, AnchoredSlice, SlidingDeque and SortedDeque are the derives (anchors clone
their Arc, every anchor is kept), Backref is not Clone; (R20.4) take moves everything: take() swaps *self with
Default::default() and returns the old value, so placeholders travel with the buffered bytes and nothing is
left behind; clear() resets the slices and the pending placeholders together and touches nothing else (in
particular not the arena).
NOT decided: observable equality of both sides after arbitrary suffixes (value-level).
"""

ASSUMPTIONS = ['Arc/Default/derive(Clone) semantics of std', 'C04/C05 clauses']

FLOORS = {'R20.1': 5, 'R20.2': 7, 'R20.3': 7, 'R20.4': 4}

RAW_WRITE_CALLEES = ('ptr::copy', 'copy_nonoverlapping', 'copy_from_nonoverlapping', 'copy_from', 'copy_to', 'write_volatile', 'ptr::write', 'write_bytes',
                     'write_unaligned', 'from_raw_parts_mut', 'ptr::swap', 'ptr::replace')


def r20_1(cx):
    """a clone starts without an allocation cache and cannot obtain the original's"""
    prog = cx.prog
    cl = prog.fn('<owning_iovec::byte_arena::ByteArena as std::clone::Clone>::clone')
    uses_self = False
    for pos, st in cl.statements():
        e = cl.rvalue_expr(st['rv']) if st['k'] == 'assign' else None
        if e is not None and any(n.kind == 'param' for n in e.walk()):
            uses_self = True
    for cs in cl.calls():
        if any(n.kind == 'param' for a in cs.args() for n in a.walk()):
            uses_self = True
    r = cl.local_expr(0, []).strip()
    cx.check(not uses_self and is_call(r, 'Default>::default'), 'arena-clone-empty', cl, None, 'ByteArena::clone ignores self and returns Default::default() (no cache)',
             fail_detail='ByteArena::clone reads its argument or returns %s: a clone could share the allocation cache' % show(r)[:80])
    for ty in (AC, CH):
        bad = [i for i in prog.impls if i['self'].startswith(ty) and i['trait'] in ('std::clone::Clone', 'std::marker::Copy')]
        cx.check(not bad, 'not-clone:' + short(ty), None, ty, '%s is neither Clone nor Copy' % short(ty), fail_detail='%s implements %s' % (short(ty), [i['trait'] for i in bad]))
    ba = prog.adt(BA)
    fl = ba['variants'][0]['fields']
    cx.check(len(fl) == 1 and 'AllocCache' in fl[0]['ty'] and not fl[0]['vis'].startswith('Public'), 'arena-state', None, '%s:%s' % (ba['file'], ba['line']),
             'the arena\'s only state is its private Option<AllocCache>', fail_detail='ByteArena fields: %s' % [(f['n'], f['ty']) for f in fl])
    from . import c05
    sub = cx.__class__(cx.prog, cx.profile, cx.prop)
    sub.rule = 'R5.6'
    c05.r5_6(sub)
    for rec in sub.records:
        rec = dict(rec)
        rec['instance'] = 'R5.6:' + rec['instance']
        rec['rule'] = cx.rule
        cx.records.append(rec)


def r20_2(cx):
    """who may write arena bytes and who may rewind the bump pointer"""
    prog = cx.prog
    writers = {}
    for f in prog.fns.values():
        if f.crate not in ('owning_iovec', 'hcobs'):
            continue
        for cs in f.calls():
            if cs.t.get('exp'):
                continue
            if any(cs.callee.endswith(w) or ('::' + w + '<') in cs.callee for w in RAW_WRITE_CALLEES):
                writers.setdefault(f.name, []).append(cs)
    allowed = {
        OI + '::backfill_or_panic': 'pending placeholder only (R4.5)',
        BA + '::copy': 'fresh bump allocation of the same call',
        BA + '::read_n': 'fresh bump allocation of the same call (buffer for the reader)',
        '<owning_iovec::byte_arena::anchor::Chunk as std::ops::Drop>::drop': 'debug poison of a chunk nobody references any more',
    }
    for name in sorted(set(writers) | set(allowed)):
        cx.count_sites()
        if name not in allowed:
            cx.fail('raw-writer:' + short(name), prog.by_name[name][0], writers[name][0].loc(), 'function outside the audited set performs raw memory writes: %s'
                    % [short(c.callee) for c in writers[name]])
        elif name in writers:
            cx.ok('raw-writer:' + short(name), prog.by_name[name][0], None, '%s — %s' % ([short(c.callee) for c in writers[name]], allowed[name]))
    cp = prog.fn(BA + '::copy')
    w = [cs for cs in cp.calls('copy_from_nonoverlapping')]
    okc = len(w) == 1 and any(c for c in w[0].arg(0).calls(BA + '::alloc')) and all(c.fn is cp for c in w)
    cx.check(okc, 'copy-dest-fresh', cp, w[0].loc() if w else None, 'ByteArena::copy writes into the allocation made by the same call', fail_detail='ByteArena::copy writes somewhere else than its own fresh allocation')
    rn = prog.fn(BA + '::read_n')
    w = [cs for cs in rn.calls('from_raw_parts_mut')]
    okr = len(w) == 1 and any(c for c in w[0].arg(0).calls(BA + '::alloc'))
    cx.check(okr, 'read-dest-fresh', rn, w[0].loc() if w else None, 'the reader buffer is the reservation made by the same call', fail_detail='read_n hands the reader memory that is not its own fresh reservation')
    # bump pointer writers
    bw = set()
    for f in prog.fns.values():
        if f.crate != 'owning_iovec':
            continue
        for pos, pl, rv in f.stores():
            if pl['p'] and pl['p'][-1]['k'] == 'field' and pl['p'][-1]['n'] == 'bump':
                bw.add(f.name)
        for pos, e in agg_sites(f, adt_key_suffix='alloc_cache::AllocCache'):
            bw.add(f.name)
    cx.check(bw == {AC + '::new', AC + '::alloc_or_die', AC + '::release_or_die'}, 'bump-writers', None, 'owning_iovec/src/byte_arena/alloc_cache.rs',
             'the bump pointer is written only by AllocCache::{new, alloc_or_die, release_or_die}', fail_detail='bump pointer written in %s' % sorted(bw))
    rel = prog.fn(AC + '::release_or_die')
    # (a closure defined in read_n is part of read_n)
    callers = sorted({cs.fn.name.split('::{closure')[0] for cs in prog.callers_of(rel.name) if cs.matches(rel)})
    cx.check(callers == [BA + '::read_n'], 'rewind-only-read_n', rel, None, 'release_or_die (the only rewind of the bump pointer) is called only from ByteArena::read_n',
             fail_detail='the bump pointer can be rewound from %s: bytes another clone still sees could be re-allocated' % callers)
    ao = prog.fn(AC + '::alloc_or_die')
    callers = sorted({cs.fn.name for cs in prog.callers_of(ao.name) if cs.matches(ao)})
    cx.check(set(callers) <= {BA + '::alloc', BA + '::grow_and_alloc'}, 'alloc-callers', ao, None, 'alloc_or_die is reached only through ByteArena::alloc', fail_detail='alloc_or_die called from %s' % callers)


def r20_3(cx):
    """clone is memberwise: the derives, every anchor kept; Backref is not Clone"""
    prog = cx.prog
    want = [OI, GD, AN, AS, 'sliding_deque::sliding_deque::SlidingDeque', 'sliding_deque::sorted_deque::SortedDeque']
    for ty in want:
        im = [i for i in prog.impls if i['trait'] == 'std::clone::Clone' and (i['self'] == ty or i['self'].startswith(ty + '<'))]
        cx.count_sites()
        cx.check(len(im) == 1 and im[0]['derived'], 'derived-clone:' + short(ty), None, ty, 'Clone for %s is #[derive(Clone)] (memberwise: anchors clone their Arc)' % short(ty),
                 fail_detail='Clone for %s is %s' % (short(ty), 'hand-written' if im else 'missing'))
    br = [i for i in prog.impls if i['self'] == 'owning_iovec::implementation::Backref' and i['trait'] in ('std::clone::Clone', 'std::marker::Copy')]
    cx.check(not br, 'backref-not-clone', None, 'owning_iovec::implementation::Backref', 'Backref is neither Clone nor Copy (a placeholder is filled once)', fail_detail='Backref implements %s' % [i['trait'] for i in br])
    an = prog.adt(AN)
    tys = {f['n']: f['ty'] for f in an['variants'][0]['fields']}
    cx.check(any('Arc<' in t and 'Chunk' in t for t in tys.values()), 'anchor-holds-arc', None, '%s:%s' % (an['file'], an['line']), 'an Anchor holds Option<Arc<Chunk>>',
             fail_detail='Anchor fields: %s' % tys)


def r20_4(cx):
    """take moves everything; clear resets slices and placeholders together and nothing else"""
    prog = cx.prog
    for ty in (OI, AS):
        f = prog.fn(ty + '::take')
        sw = [cs for cs in f.calls('mem::swap')]
        cx.count_sites()
        ok = len(sw) == 1 and len(list(f.calls())) == 2
        if ok:
            a, b = sw[0].arg(0).strip(), sw[0].arg(1).strip()
            if b.kind == 'param':
                a, b = b, a     # swap is symmetric
            ok = a.kind == 'param' and is_call(b, 'Default>::default')
            r = f.local_expr(0, []).strip()
            ok = ok and is_call(r, 'Default>::default')
        cx.check(ok, 'take:' + short(ty), f, None, 'take() = swap(self, &mut Default::default()); return the old value', fail_detail='%s::take is not a whole-value swap with Default: %s' % (short(ty), [short(c.callee) for c in f.calls()]))
    cl = prog.fn(OI + '::clear')
    calls = sorted(short(c.callee) for c in cl.calls())
    ok = len(list(cl.calls(prog.fn(GD + '::clear')))) == 1 and len(list(cl.calls(SD + '::clear'))) == 1 and len(calls) == 2
    cx.check(ok, 'clear', cl, None, 'clear() = slices.clear(); backrefs.clear() and nothing else', fail_detail='OwningIovec::clear calls %s' % calls)
    dflt = [i for i in prog.impls if i['trait'] == 'std::default::Default' and i['self'].startswith(OI)]
    cx.check(len(dflt) == 1 and dflt[0]['derived'], 'default-derived', None, OI, 'Default for OwningIovec is derived (empty deque, no cache, no placeholders)', fail_detail='Default for OwningIovec is not the derive')


def r20_5(cx):
    """a clone keeps alive what it points to: zero-count pins are never re-pointed, overwritten or dropped early (R5.7, R5.8)"""
    from . import c05
    compose(cx, [('R5.4', c05.r5_4), ('R5.7', c05.r5_7), ('R5.8', c05.r5_8)])


RULES = [('R20.1', r20_1), ('R20.2', r20_2), ('R20.3', r20_3), ('R20.4', r20_4), ('R20.5', r20_5)]
RULES.append(('R20.6', scan_rule(('owning_iovec::implementation::', 'owning_iovec::global_deque::'))))
FLOORS['R20.6'] = 1
