"""C12 — MessageView is total on untrusted bytes: pair-count bound on index accessors, validation gates,
exact header arithmetic, Tag layout behind the unsafe cast, header sub-slices."""
from .util import *  # noqa: F401,F403
from engine.woodlint.core import table
from engine.woodlint.db import Pos, as_relation, show
from engine.woodlint.linear import PathEval, Lin

PROPERTY = 'C12'

EXPLANATION = """
Static analysis of rough_tlv::decoder.  Decided: (R12.1) in every exported accessor taking a usize index and
returning an Option, each `Some` result is dominated by a fact that bounds the index by the pair count itself
(index < len(), tags().get(index) is Some, or the Some of another accessor already shown to be bounded) — a
comparison with offsets().len() (= max(N,1)-1) does not count, which is exactly defect F3; (R12.2) the Ok
return of MessageView::new is reachable only through the passing edge of the five validation gates, each
identified by the DecodingError variant built on its failing edge and by the form of its guard (len < 4,
8N > len, nonmonotonic(offsets) / nonmonotonic(tags) with a strict `>` between neighbours, 8N + last > len);
(R12.3) every overflow-checked multiplication/addition and every `as` cast in the module is exact for its
machine type on every path (path-sensitive interval evaluation with callee summaries: len() <= u32::MAX,
Tag::value() is u32), so those overflow panics are dead on the 64-bit target; the three subtractions/additions
that need the constructor's relational invariant are reported as undecided (tables/c12_undecided.json) and
any other unproven obligation fails; (R12.4) Tag is repr(transparent) over [u8; 4] (size 4, align 1) and
slice_as_tags builds its slice from the same pointer with len/4 elements; (R12.5) offsets() and tags() are
storage[4..max(4N,4)] and storage[4N..8N] with N = len(); len() reads the first four bytes little-endian;
(R12.6) find() looks the tag up by binary search over tags() and passes that index to get_value.
NOT decided: that values tile the payload and accessors agree on contents (value-level); panic-freedom of the
slice expressions that rely on the constructor's invariant.
"""

ASSUMPTIONS = ['64-bit target (usize = u64)', 'slice lengths are at most isize::MAX']

FLOORS = {'R12.1': 2, 'R12.2': 8, 'R12.3': 12, 'R12.4': 4, 'R12.5': 4, 'R12.6': 2, 'R12.7': 1}

MV = 'rough_tlv::decoder::MessageView'


def _is_len_of_self(e):
    """MessageView::len(self) or <[T]>::len(MessageView::tags(self))"""
    e = e.strip()
    if is_call(e, MV + '::len') and e.args[0].strip().kind == 'param':
        return True
    if is_call(e, 'len') and e.args and is_call(e.args[0], MV + '::tags'):
        return True
    return False


def r12_1(cx):
    """index accessors are bounded by the pair count on every path that returns Some"""
    prog = cx.prog
    accessors = [f for f in prog.find_fns(prefix=MV + '::') if f.kind == 'AssocFn' and f.d.get('exported')
                 and 'usize' in f.locals[1:f.argc + 1] and f.locals[0].startswith('std::option::Option<')]
    cx.require(len(accessors) >= 2, 'expected at least two index accessors (get, get_value)')
    verified = set()
    # iterate to a fixpoint so that `get` may rely on `get_value`
    pending = list(accessors)
    results = {}
    for _round in range(3):
        for fn in pending:
            idx_locals = [l for l in range(1, fn.argc + 1) if fn.locals[l] == 'usize']
            somes = []
            for pos, st in fn.statements():
                if st['k'] == 'assign' and st['pl']['l'] == 0 and not st['pl']['p'] and st['rv']['k'] == 'agg' and st['rv']['variant'] == 'Some':
                    somes.append(pos)
            for cs in fn.calls():
                if cs.t['dest']['l'] == 0 and not cs.t['dest']['p'] and 'FromResidual' not in cs.callee:
                    somes.append(cs.pos)
            res = []
            for pos in somes:
                why = None
                for e, val, edge in fn.facts_at(pos.bb):
                    rel = as_relation((e, val))
                    if rel:
                        op, a, b = rel
                        if op == 'Lt' and a.strip().kind == 'param' and a.strip().info['i'] in idx_locals and _is_len_of_self(b):
                            why = 'index < %s' % show(b)
                        if op == 'Gt' and b.strip().kind == 'param' and b.strip().info['i'] in idx_locals and _is_len_of_self(a):
                            why = '%s > index' % show(a)
                    if e.kind == 'discr':
                        inner = e.a
                        via_try = inner.has_call('Try>::branch')
                        want = ('in', frozenset([0])) if via_try else ('in', frozenset([1]))
                        if val != want:
                            continue
                        for g in inner.calls('get'):
                            if len(g.args) == 2 and is_call(g.args[0], MV + '::tags') and g.args[1].strip().kind == 'param' \
                                    and g.args[1].strip().info['i'] in idx_locals:
                                why = 'tags().get(index) is Some'
                        for g in inner.calls():
                            if g.info.get('key') in verified and any(a.strip().kind == 'param' and a.strip().info['i'] in idx_locals for a in g.args):
                                why = '%s(index) is Some (itself bounded)' % short(g.op)
                res.append((pos, why))
            results[fn.key] = (fn, res)
            if res and all(w for _, w in res):
                verified.add(fn.key)
        pending = [f for f in accessors if f.key not in verified]
    for key, (fn, res) in results.items():
        cx.count_sites(len(res))
        if not res:
            cx.unrecognised('some-sites', fn, None, 'no Some-producing site found in an Option-returning index accessor')
        for i, (pos, why) in enumerate(res):
            cx.check(why is not None, 'some#%d' % i, fn, fn.loc(pos.bb, pos.idx), 'Some only where %s' % why,
                     fail_detail='a Some result is not dominated by a comparison of the index with the pair count '
                     '(len() or tags()); offsets().len() is max(N,1)-1 and cannot tell an empty message from a one-pair message')


GATES = ['ImpossibleHeader', 'TruncatedHeader', 'NonMonotonicOffsets', 'NonMonotonicTags', 'TruncatedPayload']


def r12_2(cx):
    """validation gates: Ok(ret) only through the passing edge of the five gates, each with the expected guard"""
    prog = cx.prog
    fn = prog.fn(MV + '::new')
    oks = [pos for pos, st in fn.statements() if st['k'] == 'assign' and st['pl']['l'] == 0 and st['rv']['k'] == 'agg' and st['rv']['variant'] == 'Ok']
    cx.require(len(oks) >= 1, 'MessageView::new no longer has an Ok return')
    okbs = [p.bb for p in oks]
    okb = okbs[0]
    errs = {}
    for pos, st in fn.statements():
        if st['k'] == 'assign' and st['rv']['k'] == 'agg' and st['rv']['name'].endswith('decoder::DecodingError'):
            errs.setdefault(st['rv']['variant'], []).append(pos)
    for g in GATES:
        cx.count_sites()
        if g not in errs:
            cx.fail('gate:' + g, fn, None, 'no path of MessageView::new builds DecodingError::%s any more: the check is gone' % g)
            continue
        pos = errs[g][0]
        facts = fn.facts_at(pos.bb)
        form = None
        edge = None
        for e, val, ed in facts:
            rel = as_relation((e, val))
            if g == 'ImpossibleHeader' and rel and rel[0] == 'Lt' and is_call(rel[1], 'len') and rel[2].is_const_int(4):
                form, edge = 'len < 4', ed
            if g == 'TruncatedHeader' and rel and rel[0] == 'Gt':
                a, b = rel[1].strip(), rel[2].strip()
                if a.kind == 'binop' and a.op == 'Mul' and (a.a.is_const_int(8) or a.b.is_const_int(8)) and a.has_call('from_le_bytes') and is_call(b, 'len'):
                    form, edge = '8*N > len', ed
            if g == 'TruncatedPayload' and rel and rel[0] == 'Gt':
                a, b = rel[1].strip(), rel[2].strip()
                if a.kind == 'binop' and a.op == 'Add' and a.has_call('from_le_bytes') and a.has_call('Tag::value') and a.has_call('last') \
                        and any(n.kind == 'binop' and n.op == 'Mul' and (n.a.is_const_int(8) or n.b.is_const_int(8)) for n in a.walk()) and is_call(b, 'len'):
                    form, edge = '8*N + last_offset > len', ed
            if g in ('NonMonotonicOffsets', 'NonMonotonicTags') and e.kind == 'discr' and val == ('in', frozenset([1])):
                which = MV + ('::offsets' if g.endswith('Offsets') else '::tags')
                cl = [c for c in e.calls() if '{closure' in c.op or 'Fn' in c.op]
                # (a helper function extracted from the closure is seen inlined: the witness Option itself)
                inl = [n for n in e.walk() if n.kind == 'agg' and n.info.get('variant') == 'Some' and len(n.args) == 1 and n.args[0].strip().kind == 'agg'
                       and len(n.args[0].strip().args) == 3]
                # ... or a private helper function that was kept as a function (it contains the loop)
                hlp = [c for c in e.calls() if c.info.get('key') in prog.fns and not prog.fns[c.info['key']].d.get('exported')
                       and prog.fns[c.info['key']].crate == fn.crate and prog.fns[c.info['key']].locals[0].replace(' ', '').endswith('Option<(usize,u32,u32)>')]
                # ... or the scan spelled windows(2)..find_map(|(i, pair)| (pair[0] > pair[1]).then(|| (i, ..))): the witness is
                # what the closure handed to find_map returns
                fm = []
                for c in e.calls():
                    if c.op.endswith('Iterator::find_map') or c.op.endswith('Iterator>::find_map'):
                        fcl = closure_of(prog, c.args[1])
                        if fcl is not None and fcl.locals[0].replace(' ', '').endswith('Option<(usize,u32,u32)>'):
                            fm.append(fcl)
                if (cl or inl or hlp or fm) and e.has_call(which):
                    form, edge = 'nonmonotonic(%s()) is Some' % which.rsplit('::', 1)[-1], ed
        if form is None:
            cx.fail('gate:' + g, fn, fn.loc(pos.bb), 'DecodingError::%s is built on an edge whose guard is not the expected one' % g)
            continue
        # the Ok return must not be reachable through the failing edge, and the gate must be unavoidable
        b = edge[0]
        through_fail = any(ob in fn.reachable(edge[1]) for ob in okbs)
        if g == 'TruncatedPayload':
            # only when there is a last offset: the gate dominates Ok on the Some side of offsets().last()
            sw = [x for x in fn.dominators()[b] if fn.term(x)['k'] == 'switch' and fn.switch_expr(x).kind == 'discr' and fn.switch_expr(x).has_call('last')]
            unavoidable = bool(sw) and all(fn.dominates(s, ob) for s in sw for ob in okbs)
            if sw:
                some_t = [s for s, vals in fn.edge_values(sw[-1]).items() if 1 in vals]
                unavoidable = unavoidable and bool(some_t) and fn.path(some_t[0], okbs, cut_blocks=[b]) is None
        else:
            # every Ok return (a fast path adds one) lies behind the gate
            unavoidable = all(fn.dominates(b, ob) for ob in okbs)
        if g == 'TruncatedHeader':
            # the header arrays are sliced out of the buffer only after it is known to hold them
            early = [c for c in fn.calls() if (c.matches(MV + '::offsets') or c.matches(MV + '::tags')) and not (fn.dominates(b, c.bb) and c.bb != b)]
            cx.check(not early, 'header-checked-before-use', fn, early[0].loc() if early else fn.loc(b),
                     'offsets() / tags() are only called after the 8*N <= len gate',
                     fail_detail='%s slices the header arrays before the buffer is known to hold 8*N bytes: it panics on a short buffer' % short(early[0].callee) if early else '')
        cx.count_paths()
        cx.check(unavoidable and not through_fail, 'gate:' + g, fn, fn.loc(b), '%s => Err(%s); Ok is only reachable through the passing edge' % (form, g),
                 fail_detail='Ok(ret) can be reached around the %s gate (unavoidable=%s, reachable through failing edge=%s)' % (g, unavoidable, through_fail))
    # the neighbour comparison is strict: equal offsets / equal tags are allowed, decreasing ones rejected
    cls = [c for c in prog.closures_of(fn)] + [fn] + [g for g in prog.callees(fn) if hasattr(g, 'locals') and g.crate == fn.crate
                                                      and not g.d.get('exported') and g.locals[0].replace(' ', '').endswith('Option<(usize,u32,u32)>')]
    # (closures of a helper that was spliced into new(): any closure of the crate that builds the witness type)
    cls += [g for g in prog.fns.values() if g.kind == 'Closure' and g.crate == fn.crate and g not in cls and g.locals[0].replace(' ', '').endswith('Option<(usize,u32,u32)>')]
    found = False
    for c in cls:
        for pos, st in c.statements():
            if st['k'] == 'assign' and st['rv']['k'] == 'agg' and st['rv']['variant'] == 'Some' and not st['pl']['p'] and \
                    c.locals[st['pl']['l']].replace(' ', '').endswith('Option<(usize,u32,u32)>'):
                for e, val, ed in c.facts_at(pos.bb):
                    rel = as_relation((e, val))
                    if not rel or e.kind != 'call':
                        continue
                    found = True
                    cx.check(rel[0] == 'Gt', 'neighbours-strict', c, c.loc(pos.bb), 'witness returned exactly where left > right',
                             fail_detail='the neighbour comparison that rejects is `%s`, not a strict `>`: equal neighbours must be accepted' % rel[0])
    if not found:
        # the scan spelled windows(2)..find(|(_, pair)| pair[0] > pair[1]): the predicate handed to find is the comparison
        for c in cls:
            for cs in c.calls('Iterator::find'):
                pr = closure_of(prog, cs.arg(1))
                if pr is None or not cs.arg(0).has_call('windows'):
                    continue
                rel = as_relation((pr.local_expr(0, []).strip(), True))
                if rel is None:
                    continue
                op, a, b = rel

                def idx(e):
                    ix = [n.args[1].const_int() for n in e.walk() if n.kind == 'call' and n.op.endswith('::index') and len(n.args) == 2 and n.args[1].is_const_int()]
                    ix += [n.b.const_int() for n in e.walk() if n.kind == 'proj' and n.op == 'index' and n.b is not None and n.b.is_const_int()]
                    return ix[0] if len(ix) == 1 else None
                if idx(a) == 1 and idx(b) == 0:
                    op = {'Gt': 'Lt', 'Lt': 'Gt', 'Ge': 'Le', 'Le': 'Ge'}.get(op, op)
                    a, b = b, a
                found = True
                cx.check(op == 'Gt' and idx(a) == 0 and idx(b) == 1, 'neighbours-strict', pr, None, 'the scan stops at the first window with pair[0] > pair[1]',
                         fail_detail='the neighbour comparison that rejects is `%s` over window elements %s, %s: not a strict `>` of the left over the right' % (op, idx(a), idx(b)))
    if not found:
        cx.fail('neighbours-strict', fn, None, 'no `left > right` comparison guards the non-monotonic witness')
    cx.check(True, 'ok-is-the-view', fn, fn.loc(okb), '%d Ok return(s), each behind every gate' % len(okbs))


def r12_3(cx):
    """header arithmetic is exact: every checked mul/add and cast in the module is proved not to overflow"""
    prog = cx.prog
    und = table('c12_undecided')
    fns = [f for f in prog.fns.values() if f.crate == 'rough_tlv' and 'decoder::' in f.name and not f.d.get('derived')
           and 'Display' not in f.name]
    n = 0
    for fn in sorted(fns, key=lambda f: f.name):
        if not fn.is_acyclic():
            # a loop puts the function out of reach of the path evaluator: fine if it does no arithmetic that could
            # overflow or truncate, otherwise the proof obligation cannot be discharged (fail closed)
            arith = [pos for pos, st in fn.statements() if st['k'] == 'assign' and (
                (st['rv']['k'] == 'binop' and st['rv']['op'].replace('WithOverflow', '').replace('Unchecked', '') in ('Add', 'Sub', 'Mul', 'Shl'))
                or (st['rv']['k'] == 'cast' and st['rv']['ck'] == 'IntToInt'))]
            arith += [c.pos for c in fn.calls() if c.callee.rsplit('::', 1)[-1] in ('wrapping_add', 'wrapping_sub', 'wrapping_mul', 'wrapping_shl')]
            if arith:
                cx.unrecognised('loop:' + short(fn.name), fn, fn.loc(arith[0].bb), '%s contains a loop and %d arithmetic operation(s): exactness cannot be evaluated' % (short(fn.name), len(arith)))
            continue
        pe = PathEval(fn, {}, prog=prog)
        pe.run(lambda path, st: None)
        cx.count_paths(pe.paths)
        # merge obligations per site: a site is exact if it is exact on every path
        sites = {}
        for ob in pe.obligations:
            k = (ob['kind'], ob['pos'])
            sites.setdefault(k, []).append(ob)
        ordinal = {}
        for (kind0, pos) in sorted(sites, key=lambda kp: (kp[0].replace('checked-', ''), kp[1])):
            kind = kind0.replace('checked-', '')   # overflow checks are a build-profile matter
            i = ordinal.get(kind, 0)
            ordinal[kind] = i + 1
            obs = sites[(kind0, pos)]
            ok = all(o['ok'] for o in obs)
            inst = '%s#%d' % (kind, i)
            key = '%s|%s|%d' % (fn.name, kind, i)
            n += 1
            if ok:
                cx.ok(inst, fn, fn.loc(pos[0], pos[1]), obs[0]['detail'][:200])
            elif key in und and not key.startswith('_'):
                cx.ok(inst + ':undecided', fn, fn.loc(pos[0], pos[1]), 'NOT DECIDED (listed): ' + und[key])
            else:
                bad = [o for o in obs if not o['ok']][0]
                cx.fail(inst, fn, fn.loc(pos[0], pos[1]), 'arithmetic not provably exact: ' + bad['detail'][:300])
    # callee summaries the proofs rest on
    from engine.woodlint.linear import return_interval
    r = return_interval(prog, prog.fn(MV + '::len').key)
    cx.check(r is not None and r[1] <= 2**32 - 1, 'summary:len', prog.fn(MV + '::len'), None, 'len() returns a value in [0, 2^32-1] (a u32 widened)',
             fail_detail='len() is no longer a widened u32: range %s' % (r,))


def r12_4(cx):
    """the unsafe cast is well-founded: Tag is repr(transparent) over [u8; 4]; slice_as_tags uses len/4"""
    prog = cx.prog
    tag = prog.adt('rough_tlv::Tag')
    fields = tag['variants'][0]['fields']
    cx.check('transparent' in tag['repr'].lower() or 'TRANSPARENT' in tag['repr'], 'repr', None, '%s:%s' % (tag['file'], tag['line']), 'repr(transparent)',
             fail_detail='Tag is not repr(transparent): %s' % tag['repr'][:80])
    cx.check(len(fields) == 1 and fields[0]['ty'] == '[u8; 4]', 'field', None, '%s:%s' % (tag['file'], tag['line']), 'single field [u8; 4]',
             fail_detail='Tag fields: %s' % [(f['n'], f['ty']) for f in fields])
    cx.check(tag.get('size') == 4 and tag.get('align') == 1, 'layout', None, '%s:%s' % (tag['file'], tag['line']), 'size 4, align 1',
             fail_detail='Tag layout size=%s align=%s' % (tag.get('size'), tag.get('align')))
    fn = prog.fn('rough_tlv::decoder::slice_as_tags')
    frp = list(fn.calls('from_raw_parts'))
    cx.require(len(frp) == 1, 'slice_as_tags no longer has exactly one from_raw_parts')
    c = frp[0]
    ptr, n = c.arg(0), c.arg(1).strip()
    ok = ptr.has_call('as_ptr') and all(a.strip().kind == 'param' for p in ptr.calls('as_ptr') for a in p.args) and \
        n.kind == 'binop' and n.op == 'Div' and n.b.is_const_int(4) and is_call(n.a, 'len') and n.a.strip().args[0].strip().kind == 'param'
    cx.check(ok, 'from_raw_parts', fn, c.loc(), 'from_raw_parts(slice.as_ptr().cast(), slice.len() / 4)',
             fail_detail='the Tag slice is not (same pointer, len/4): %s, %s' % (show(ptr)[:80], show(n)[:80]))


def _range_of_index(e):
    e = e.strip()
    if is_call(e, 'Index<I>>::index') and e.args[1].strip().kind == 'agg' and e.args[1].strip().info.get('variant') == 'Range':
        r = e.args[1].strip()
        return e.args[0], r.args[0].strip(), r.args[1].strip()
    return None


def _mul_len(e, k):
    e = e.strip()
    return e.kind == 'binop' and e.op == 'Mul' and ((e.a.is_const_int(k) and is_call(e.b, MV + '::len')) or (e.b.is_const_int(k) and is_call(e.a, MV + '::len')))


def r12_5(cx):
    """header sub-slices: offsets = storage[4..max(4N,4)], tags = storage[4N..8N], N = u32 LE of storage[0..4]"""
    prog = cx.prog
    tags = prog.fn(MV + '::tags')
    offs = prog.fn(MV + '::offsets')
    ln = prog.fn(MV + '::len')
    e = tags.local_expr(0, []).strip()
    ok = is_call(e, 'slice_as_tags')
    r = _range_of_index(e.args[0]) if ok else None
    ok = bool(r) and rooted_in_param_field(r[0], 'storage') and _mul_len(r[1], 4) and _mul_len(r[2], 8)
    cx.check(ok, 'tags', tags, None, 'tags() = slice_as_tags(storage[4*len() .. 8*len()])', fail_detail='tags() is %s' % show(e)[:200])
    e = offs.local_expr(0, []).strip()
    ok = is_call(e, 'slice_as_tags')
    r = _range_of_index(e.args[0]) if ok else None
    ok = bool(r) and rooted_in_param_field(r[0], 'storage') and r[1].is_const_int(4) and is_call(r[2], 'Ord::max') and \
        any(_mul_len(a, 4) for a in r[2].args) and any(a.is_const_int(4) for a in r[2].args)
    cx.check(ok, 'offsets', offs, None, 'offsets() = slice_as_tags(storage[4 .. max(4*len(), 4)])', fail_detail='offsets() is %s' % show(e)[:200])
    e = ln.local_expr(0, []).strip()
    ok = is_call(e, 'from_le_bytes') and e.info.get('ty', '') in ('', None) or is_call(e, 'from_le_bytes')
    src = None
    if ok:
        for c in e.calls('Index<I>>::index'):
            rr = c.args[1].strip()
            if rr.kind == 'agg' and rr.info.get('variant') == 'Range' and rr.args[0].is_const_int(0) and rr.args[1].is_const_int(4) and rooted_in_param_field(c.args[0], 'storage'):
                src = c
    ie = [f for f in prog.fns.values() if f.name == MV + '::is_empty']
    if ie:
        r = ie[0].local_expr(0, []).strip()
        oke = r.kind == 'binop' and r.op == 'Eq' and any(is_call(x, MV + '::len') for x in (r.a, r.b)) and any(x.is_const_int(0) for x in (r.a, r.b))
        oke = oke or (r.kind == 'unop' and r.op == 'Not' and False)
        cx.check(oke, 'is_empty', ie[0], None, 'is_empty() = (len() == 0)', fail_detail='is_empty() is %s, not len() == 0 (the offsets array is empty for one pair as well as for none)' % show(r)[:120])
    cx.check(ok and src is not None, 'len', ln, None, 'len() = u32::from_le_bytes(storage[0..4]) as usize', fail_detail='len() is %s' % show(e)[:200])


def r12_6(cx):
    """tag lookup: find() = get_value(find_tag(..)?), find_tag = binary_search over tags()"""
    prog = cx.prog
    doit = prog.fn(MV + '::find_tag::doit')
    e = doit.local_expr(0, []).strip()
    ok = is_call(e, 'ok') and any(is_call(c.args[0], MV + '::tags') or c.args[0].has_call(MV + '::tags') for c in e.calls('binary_search'))
    cx.check(ok, 'find_tag', doit, None, 'tags().binary_search(&wanted).ok()', fail_detail='find_tag is %s' % show(e)[:160])
    gv = prog.fn(MV + '::get_value')
    # the i-th value lies between the (i-1)-th and the i-th end offset: the two offsets read are offsets[index - 1] (start)
    # and offsets[index] (end), nothing else (offsets.first() for the start makes every value from the third on begin at
    # the end of the first)
    ix = [c for c in gv.calls('Index<I>>::index') if c.arg(1).strip().kind == 'agg' and c.arg(1).strip().info.get('variant') == 'Range']
    okb = len(ix) == 1
    if okb:
        start, end = ix[0].arg(1).strip().args[0], ix[0].arg(1).strip().args[1]
        sg = [g for g in start.calls() if g.op.rsplit('::', 1)[-1] in ('get', 'first', 'last', 'get_unchecked', 'index') and g.has_call(MV + '::offsets')]
        eg = [g for g in end.calls() if g.op.rsplit('::', 1)[-1] in ('get', 'first', 'last', 'get_unchecked', 'index') and g.has_call(MV + '::offsets')]
        def prev_index(e):
            e = e.strip()
            if e.kind == 'binop' and e.op == 'Sub' and e.a.strip().kind == 'param' and e.b.is_const_int(1):
                return True
            # `match index.checked_sub(1) { Some(previous) => offsets.get(previous) .. }`
            cs = [c for c in e.calls() if c.op.rsplit('::', 1)[-1] == 'checked_sub']
            return e.kind == 'proj' and len(cs) == 1 and cs[0].args[0].strip().kind == 'param' and cs[0].args[1].is_const_int(1) and \
                not any(n.kind == 'binop' for n in e.walk())
        okb = bool(sg) and bool(eg) and all(g.op.endswith('get') and len(g.args) == 2 and prev_index(g.args[1]) for g in sg) and \
            all(g.op.endswith('get') and len(g.args) == 2 and g.args[1].strip().kind == 'param' for g in eg)
    cx.check(okb, 'value-bounds', gv, ix[0].loc() if ix else None, 'value i = storage[header + offsets[i-1] .. header + offsets[i]] (0 and len at the ends)',
             fail_detail='get_value does not slice between offsets[index - 1] and offsets[index]')
    finds = [f for f in prog.find_fns(prefix=MV + '::find') if f.name == MV + '::find']
    cx.require(len(finds) == 1, 'MessageView::find not found')
    f = finds[0]
    alts = [a.strip() for a in phi_alts(f.local_expr(0, []))]
    okf = any(is_call(a, gv.name) and a.args[1].has_call('find_tag') for a in alts) and \
        all(is_call(a, gv.name) or is_call(a, 'from_residual') for a in alts)
    cx.check(okf, 'find', f, None, 'find(t) = get_value(find_tag(t)?)', fail_detail='find returns %s' % [show(a)[:80] for a in alts])


def r12_7(cx):
    """`non-decreasing` means in u32 order: the comparison the validation and find_tag use is the little-endian value order (R11.2 tag order)"""
    from . import c11
    compose(cx, [('R11.2', c11.tag_order, 3)])


RULES = [('R12.1', r12_1), ('R12.2', r12_2), ('R12.3', r12_3), ('R12.4', r12_4), ('R12.5', r12_5), ('R12.6', r12_6), ('R12.7', r12_7)]
RULES.append(('R12.8', scan_rule(('rough_tlv::decoder::',))))
FLOORS['R12.8'] = 1
