"""C14 — VouchedTime exists only inside the allowed window: exact window arithmetic, constants, construction discipline."""
from .util import *  # noqa: F401,F403
from engine.woodlint.db import Pos, as_relation, show
from engine.woodlint.linear import PathEval, Lin, Infeasible, State

PROPERTY = 'C14'

EXPLANATION = """
Static analysis of vouched_time::VouchedTime.  Decided: (R14.1) check_vouched_time is loop-free; every one of
its CFG paths is evaluated over linear forms in the ideal integers L (local ms, any i128) and B (base ms, any
u64): every arithmetic operation on every path (casts, checked and wrapping add/sub, negation) is exact for
its machine type under the guards of the path (so nothing wraps and no overflow check can panic), the guards
are comparisons of L, B or L-B with constants, and the union of the guard regions of the Ok paths equals the
specification 0 <= L <= u64::MAX and -59900 <= L-B <= 2990 on every feasible cell of the (L, L-B) plane
(coordinate compression over all breakpoints: an exhaustive comparison, no sampling); each rejecting path's
message agrees with the side it rejects.  (R14.2) the two window constants evaluate to 2990 and 59900.
(R14.3) construction discipline: the VouchedTime aggregate is built only in new, dominated by the Ok edge of
check() on the same three parameters; check() rejects on the false edge of BASE_TIME_CHECK.check(base, voucher)
before the window test and feeds the window test floor(unix_timestamp_nanos(assume_utc(local))/1_000_000)
(div_euclid: a truncating division is rejected, defect F5) and the same base; get_local_time returns self.local_time; now() hands one clock reading to the provider and to new;
fields are private; new/now/check contain no unwrap/expect/panic.
NOT decided: semantics of the `time` crate (assume_utc, unix_timestamp_nanos) and of raffle's check (trusted).
"""

ASSUMPTIONS = [
    'time::PrimitiveDateTime::assume_utc().unix_timestamp_nanos() is the exact Unix time in ns; raffle check is pure',
    '64-bit target; i128 arithmetic as specified by Rust',
]

FLOORS = {'R14.1': 7, 'R14.2': 2, 'R14.3': 15, 'R14.4': 1}

U64MAX = 2**64 - 1


def _msg(v):
    """text of the io::Error::other(...) message carried by a value"""
    if isinstance(v, tuple) and v[0] == 'callres' and v[1].endswith('Error::other'):
        a = v[2][0] if v[2] else None
        if isinstance(a, tuple) and a[0] == 'const' and a[1].get('bytes'):
            return bytes.fromhex(a[1]['bytes']).decode('utf8', 'replace')
        if isinstance(a, tuple) and a[0] == 'ref':
            return None
    return None


def r14_1(cx):
    """the window test is exact: no wrap-around, no panic, accept set == {0<=L<=u64::MAX, -59900<=L-B<=2990}"""
    prog = cx.prog
    fn = prog.fn('VouchedTime::check_vouched_time')
    fwd = prog.const_int('vouched_time::MAX_FORWARD_DISCREPANCY_MS')
    bwd = prog.const_int('vouched_time::MAX_BACKWARD_DISCREPANCY_MS')
    cx.require(fn.argc == 2 and fn.locals[1] == 'i128' and fn.locals[2] == 'u64', 'check_vouched_time(i128, u64) signature changed')
    pe = PathEval(fn, {1: 'L', 2: 'B'}, propagate=False)  # cells are read off the raw (L, L-B) constraints
    outcomes = []

    def on_return(path, st):
        r = st.env.get((0,))
        kind = r[1] if isinstance(r, tuple) and r[0] == 'agg' else None
        msg = _msg(r[2][0]) if kind == 'Err' and r[2] else None
        L = st.iv.get('L', list((-2**127, 2**127 - 1)))
        B = st.iv.get('B', [0, U64MAX])
        if 'L' in st.iv and 'B' in st.iv:
            D = st.diff_interval('L', 'B')
        else:
            D = (L[0] - B[1], L[1] - B[0])
        outcomes.append({'path': path, 'kind': kind, 'msg': msg, 'L': tuple(L), 'B': tuple(B), 'D': tuple(D), 'ignored': list(st.ignored)})
    pe.run(on_return)
    cx.count_paths(len(outcomes))
    cx.check(len(outcomes) >= 4, 'paths', fn, None, '%d feasible entry->return paths evaluated' % len(outcomes),
             fail_detail='only %d paths found' % len(outcomes))
    # (i) exactness of every arithmetic operation
    seen = set()
    for ob in pe.obligations:
        key = (ob['kind'], ob['pos'])
        inst = 'exact:%s@bb%d.%d' % (ob['kind'], ob['pos'][0], ob['pos'][1])
        if not ob['ok']:
            if key in seen:
                continue
            seen.add(key)
            cx.fail('exact:%s' % ob['kind'], fn, fn.loc(ob['pos'][0], ob['pos'][1]), 'not exact over the whole input range: ' + ob['detail'])
    oks = [o for o in pe.obligations if o['ok']]
    kinds = sorted({o['kind'] for o in oks})
    cx.check(True, 'exact-ops', fn, None, '%d arithmetic obligations discharged on %d paths (kinds: %s)' % (len(oks), len(outcomes), ', '.join(kinds)))
    # (ii) guards recognised
    for o in outcomes:
        if o['ignored'] or o['kind'] not in ('Ok', 'Err'):
            cx.unrecognised('guards', fn, fn.loc(o['path'][-1]), 'path %s has guards the linear domain cannot represent (%s) or an unknown result (%s)'
                            % (fn.show_path(o['path']), o['ignored'], o['kind']))
            return
        if tuple(o['B']) != (0, U64MAX):
            cx.unrecognised('guards', fn, fn.loc(o['path'][-1]), 'a path constrains the base time alone: %s' % (o['B'],))
            return
    # (iii) accept set == specification, by coordinate compression on the (L, D) plane
    spec = {'L': (0, U64MAX), 'D': (-bwd, fwd)}
    lmin, lmax = -2**127, 2**127 - 1
    dmin, dmax = lmin - U64MAX, lmax
    lb = {lmin, lmax + 1, spec['L'][0], spec['L'][1] + 1}
    db = {dmin, dmax + 1, spec['D'][0], spec['D'][1] + 1}
    for o in outcomes:
        lb |= {o['L'][0], o['L'][1] + 1}
        db |= {o['D'][0], o['D'][1] + 1}
    lb = sorted(x for x in lb if lmin <= x <= lmax + 1)
    db = sorted(x for x in db if dmin <= x <= dmax + 1)
    cells = 0
    bad = []
    uncovered = []
    for i in range(len(lb) - 1):
        for j in range(len(db) - 1):
            l0, l1 = lb[i], lb[i + 1] - 1
            d0, d1 = db[j], db[j + 1] - 1
            # feasible: exists L in cell, D in cell with 0 <= L - D <= U64MAX
            if l1 - d0 < 0 or l0 - d1 > U64MAX:
                continue
            cells += 1
            in_spec = spec['L'][0] <= l0 and l1 <= spec['L'][1] and spec['D'][0] <= d0 and d1 <= spec['D'][1]
            hit = [o for o in outcomes if o['L'][0] <= l0 and l1 <= o['L'][1] and o['D'][0] <= d0 and d1 <= o['D'][1]]
            if not hit:
                uncovered.append((l0, l1, d0, d1))
                continue
            in_ok = any(o['kind'] == 'Ok' for o in hit)
            in_err = any(o['kind'] == 'Err' for o in hit)
            if in_ok != in_spec or (in_ok and in_err):
                bad.append({'L': (l0, l1), 'L-B': (d0, d1), 'accepted': in_ok, 'spec_accepts': in_spec})
    cx.check(not bad and not uncovered and cells > 0, 'accept-set', fn, None,
             'accept region of the %d Ok path(s) equals 0<=L<=2^64-1 and -%d<=L-B<=%d on all %d feasible cells of the (L, L-B) plane (exhaustive)'
             % (len([o for o in outcomes if o['kind'] == 'Ok']), bwd, fwd, cells),
             fail_detail='accept set differs from the specification on cell(s) %s; uncovered cells: %s' % (bad[:3], uncovered[:2]))
    # (iv) messages agree with the side rejected
    for o in outcomes:
        if o['kind'] != 'Err':
            continue
        m = o['msg'] or ''
        inst = 'message:' + (m[:40] or '?')
        if 'ahead' in m:
            cx.check(o['D'][0] > fwd, inst, fn, fn.loc(o['path'][-2]), 'reported only when L-B >= %d' % o['D'][0], fail_detail='"%s" is reported for L-B in %s' % (m, o['D']))
        elif 'behind' in m:
            cx.check(o['D'][1] < -bwd, inst, fn, fn.loc(o['path'][-2]), 'reported only when L-B <= %d' % o['D'][1], fail_detail='"%s" is reported for L-B in %s' % (m, o['D']))
        elif 'epoch' in m:
            cx.check(o['L'][1] < 0, inst, fn, fn.loc(o['path'][-2]), 'reported only when L <= %d' % o['L'][1], fail_detail='"%s" is reported for L in %s' % (m, o['L']))
        elif 'out of range' in m:
            cx.check(o['L'][0] > U64MAX, inst, fn, fn.loc(o['path'][-2]), 'reported only when L >= %d' % o['L'][0], fail_detail='"%s" is reported for L in %s' % (m, o['L']))
        else:
            cx.unrecognised(inst, fn, fn.loc(o['path'][-2]), 'rejecting path with an unknown message %r' % m)


def r14_2(cx):
    """window constants: MAX_FORWARD_DISCREPANCY_MS = 2990, MAX_BACKWARD_DISCREPANCY_MS = 59900"""
    for name, want in (('vouched_time::MAX_FORWARD_DISCREPANCY_MS', 2990), ('vouched_time::MAX_BACKWARD_DISCREPANCY_MS', 59900)):
        v = cx.prog.const_int(name)
        cx.check(v == want, name.split('::')[-1], None, name, '= %d' % v, fail_detail='%s = %d, the property states %d' % (name, v, want))


def r14_3(cx):
    """construction discipline: built only in new after check(); check = voucher check then window; accessors; no panics"""
    prog = cx.prog
    adt = prog.adt('vouched_time::VouchedTime')
    new = prog.fn('vouched_time::VouchedTime::new')
    check = prog.fn('vouched_time::VouchedTime::check')
    window = prog.fn('vouched_time::VouchedTime::check_vouched_time')
    # aggregate sites
    sites = []
    for f in prog.fns.values():
        for pos, st in f.statements():
            if st['k'] == 'assign' and st['rv']['k'] == 'agg' and st['rv']['name'] == adt['key']:
                sites.append((f, pos, st))
    nonderived = [(f, p, s) for f, p, s in sites if not f.d.get('derived')]
    cx.check(len(nonderived) == 1 and nonderived[0][0] is new, 'built-only-in-new', new, None, 'the only VouchedTime {..} literal is in new',
             fail_detail='VouchedTime literal(s) in %s' % sorted({f.name for f, _, _ in nonderived}))
    for f, pos, st in nonderived:
        if f is not new:
            continue
        cx.count_sites()
        ops = [f.operand_expr(o).strip() for o in st['rv']['ops']]
        names = [fl['n'] for fl in adt['variants'][0]['fields']]
        ok_ops = all(o.kind == 'param' for o in ops) and len({o.info['i'] for o in ops if o.kind == 'param'}) == 3
        ok_gate = False
        for e, val, edge in f.facts_at(pos.bb):
            if e.kind == 'discr' and e.has_call('Try>::branch') and val == ('in', frozenset([0])):
                for c in e.calls(check.name):
                    ps = [a.strip() for a in c.args]
                    if all(p.kind == 'param' for p in ps) and [p.info['i'] for p in ps] == [o.info['i'] for o in ops if o.kind == 'param']:
                        ok_gate = True
        cx.check(ok_ops and ok_gate, 'gated-by-check', f, f.loc(pos.bb, pos.idx), 'literal of the three parameters, dominated by check(same three)? == Ok',
                 fail_detail='the literal is not dominated by the Ok edge of check() on the same parameters in the same order (fields %s)' % names)
    # check(): voucher test first, then window with the right operands
    wc = list(check.calls(window.name))
    cx.require(len(wc) == 1, 'check() no longer calls the window test exactly once')
    wc = wc[0]
    vok = False
    for e, val, edge in check.facts_at(wc.bb):
        if val is True and is_call(e, 'CheckingParameters::check') and named_const(e.strip().args[0], 'BASE_TIME_CHECK'):
            a1, a2 = e.strip().args[1].strip(), e.strip().args[2].strip()
            if a1.kind == 'param' and a1.info['i'] == 2 and a2.kind == 'param' and a2.info['i'] == 3:
                vok = True
    cx.check(vok, 'voucher-first', check, wc.loc(), 'the window test runs only on the true edge of BASE_TIME_CHECK.check(base_time_ms, voucher)',
             fail_detail='the window test is reachable without BASE_TIME_CHECK.check(base, voucher) having held')
    errs = [a.strip() for a in phi_alts(check.local_expr(0, []))]
    ok_ret = all(is_call(a, window.name) or (a.kind == 'agg' and a.info.get('variant') == 'Err') for a in errs) and any(is_call(a, window.name) for a in errs)
    cx.check(ok_ret, 'check-returns', check, None, 'check returns the window verdict or an Err', fail_detail='check() can return something else: %s' % [show(a)[:60] for a in errs])
    l = wc.arg(0).strip()
    # the millisecond conversion must round towards negative infinity: a truncating `/` maps local times in
    # (-1 ms, 0) to millisecond 0 and defeats the "before the Unix epoch" test (defect F5)
    def _nanos_of_local(e):
        e = e.strip()
        return is_call(e, 'unix_timestamp_nanos') and is_call(e.args[0], 'assume_utc') and \
            e.args[0].strip().args[0].strip().kind == 'param' and e.args[0].strip().args[0].strip().info['i'] == 1
    floor = is_call(l, 'div_euclid') and _nanos_of_local(l.args[0]) and l.args[1].is_const_int(1000000)
    trunc = l.kind == 'binop' and l.op == 'Div' and l.b.is_const_int(1000000) and _nanos_of_local(l.a)
    b = wc.arg(1).strip()
    if trunc:
        cx.fail('window-operands', check, wc.loc(), 'the local time is converted to milliseconds with a truncating division: '
                'a local time less than 1 ms before the Unix epoch becomes millisecond 0 and passes the epoch test '
                '(e.g. 1969-12-31T23:59:59.9995 with base 0 is accepted)')
    else:
        cx.check(floor and b.kind == 'param' and b.info['i'] == 2, 'window-operands', check, wc.loc(),
                 'window test gets unix_timestamp_nanos(assume_utc(local_time)).div_euclid(1_000_000) (floor) and base_time_ms',
                 fail_detail='window operands are %s and %s' % (show(l)[:120], show(b)))
    # accessor
    g = prog.fn('vouched_time::VouchedTime::get_local_time')
    r = g.local_expr(0, []).strip()
    root, path = field_path(r)
    lt = [f['n'] for f in adt['variants'][0]['fields'] if 'DateTime' in f['ty']]
    cx.check(root.kind == 'param' and path == lt[:1], 'get_local_time', g, None, 'returns self.%s' % (lt[0] if lt else '?'),
             fail_detail='get_local_time returns %s' % show(r))
    # now(): one clock reading
    now = prog.fn('vouched_time::VouchedTime::now')
    clocks = list(now.calls('OffsetDateTime::now_utc'))
    nc = list(now.calls(new.name))
    ok_now = len(clocks) == 1 and len(nc) == 1
    if ok_now:
        a0 = nc[0].arg(0)
        ok_now = all(c.pos == clocks[0].pos for c in a0.calls('OffsetDateTime::now_utc')) and a0.has_call('OffsetDateTime::now_utc')
        prov = [cs for cs in now.calls() if 'FnOnce' in cs.callee or 'call_once' in cs.callee]
        ok_now = ok_now and len(prov) == 1 and any(c.pos == clocks[0].pos for a in prov[0].args() for c in a.calls('OffsetDateTime::now_utc'))
    cx.check(ok_now, 'now-one-clock', now, None, 'now() reads the clock once and passes that reading to the provider and to new',
             fail_detail='now() does not pass one and the same clock reading to the provider and to new')
    # privacy
    pub = [f['n'] for f in adt['variants'][0]['fields'] if f['vis'].startswith('Public')]
    cx.check(not pub, 'fields-private', None, '%s:%s' % (adt['file'], adt['line']), 'all fields private', fail_detail='public fields %s' % pub)
    # check() rejects for one reason of its own (the voucher); every other verdict is the window test's
    eo = [cs.pos for cs in check.calls('io::Error::other')] + [pos for pos, st in check.statements() if st['k'] == 'assign' and st['rv']['k'] == 'agg'
                                                                 and st['rv']['variant'] == 'Err' and not check.rvalue_expr(st['rv']).has_call('io::Error::other')]
    ok_one = len(eo) == 1
    if ok_one:
        bb = eo[0].bb
        ok_one = any(val is False and is_call(e, 'CheckingParameters::check') and named_const(e.strip().args[0], 'BASE_TIME_CHECK') for e, val, edge in check.facts_at(bb))
    cx.check(ok_one, 'single-rejection', check, None, 'check() builds one error of its own, on the false edge of BASE_TIME_CHECK.check',
             fail_detail='check() rejects for %d reason(s) of its own besides the window verdict (an extra fast-path rejection changes the accepted set)' % len(eo))
    # the functions on the construction path call nothing but what was audited as total (no panic, no hidden verdict)
    TOTAL = ('::from', '::into', 'Ord::min', 'Ord::max', 'Ord::clamp', 'RangeInclusive::new', 'RangeInclusive::contains', 'Range::contains', 'unsigned_abs',
             'Try>::branch', 'from_residual', '::div_euclid', '::rem_euclid', 'io::Error::other', 'raffle::CheckingParameters::check',
             'OffsetDateTime::unix_timestamp_nanos', 'PlainDateTime::assume_utc', 'OffsetDateTime::now_utc', 'OffsetDateTime::date', 'OffsetDateTime::time',
             'PlainDateTime::new', 'FnOnce::call_once', 'VouchedTime::check', 'VouchedTime::check_or_die', 'VouchedTime::check_vouched_time', 'VouchedTime::new',
             'wrapping_sub', 'wrapping_add', 'saturating_sub', 'saturating_add', 'abs_diff', 'fmt::Arguments', 'Option::is_some', 'Option::is_none', 'Result::is_ok', 'Result::is_err',
             'convert::TryFrom<i128>>::try_from', 'convert::TryFrom<u128>>::try_from', 'convert::TryFrom<i64>>::try_from', 'convert::TryFrom<u64>>::try_from')
    for f in (new, now, check, window):
        unk = sorted({cs.callee for cs in f.calls() if not cs.t.get('exp') and not any(t in cs.callee for t in TOTAL)})
        cx.count_sites()
        cx.check(not unk, 'callees-audited:' + short(f.name), f, None, 'calls only functions audited as total on their whole domain',
                 fail_detail='%s calls %s, which is not in the audited list: it may panic or fail on part of the 64-bit / calendar range' % (short(f.name), [short(u) for u in unk]))
    # no panicking helpers on the library's own paths
    for f in (new, now, check, window):
        bad = [short(cs.callee) for cs in f.calls() if cs.callee.rsplit('::', 1)[-1] in ('unwrap', 'expect', 'panic', 'panic_fmt', 'unwrap_unchecked')
               or 'panicking' in cs.callee]
        own = [cs for cs in f.calls() if cs.matches('VouchedTime::check_or_die')]
        cx.check(not bad, 'no-panic:' + short(f.name), f, None, 'no unwrap/expect/panic call (check_or_die on an accepted value: %d)' % len(own),
                 fail_detail='may panic through %s' % bad)


def r14_4(cx):
    """what now() stands on when it is given the crate's own base-time provider: the cell it reads never yields a torn or unchecked pair (whose assertion would panic inside now()) (R13.1-R13.3, R13.6)"""
    from . import c13
    compose(cx, [('R13.1', c13.r13_1), ('R13.2', c13.r13_2), ('R13.3', c13.r13_3), ('R13.6', c13.r13_6)])


RULES = [('R14.1', r14_1), ('R14.2', r14_2), ('R14.3', r14_3), ('R14.4', r14_4)]
