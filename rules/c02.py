"""C02 — HCOBS output never contains FE FD, is split-independent, bounded: header digits, stuff constants,
truncate-then-search, sibling agreement, chunk-limit assertions."""
from .util import *  # noqa: F401,F403
from engine.woodlint.db import Pos, as_relation, show
from engine.woodlint.linear import PathEval, Lin
from engine.woodlint.skeleton import skeleton, diff

PROPERTY = 'C02'

EXPLANATION = """
Static analysis of hcobs::encoder (+ the input methods in lib.rs).  Decided: (R2.1) header bytes can never be
0xFD / 0xFE: on every path of encode_header, under its own assertion chunk_size < RADIX*RADIX, both digits of
the array whose prefix is backfilled have interval [0, 252] and each `as u8` is exact (path-sensitive interval
evaluation); (R2.2) the stuff constants are wired consistently: the byte re-emitted after a hold-back is
STUFF_SEQUENCE[0], the hold-back test compares the last byte with STUFF_SEQUENCE[0], the completion test
compares the next first byte with STUFF_SEQUENCE[1] under maybe_mid_stuff, a found sequence consumes
STUFF_SEQUENCE.len() bytes; (R2.3) truncate-then-search: the window searched by find_stuff_sequence is, by
reaching definitions, exactly input[..min(len, remaining)] with remaining = max_chunk_size - current_chunk_size,
and every length handed to the writer is the find result, `remaining`, or len (len-1 on the hold-back edge);
(R2.4) input-method independence by construction: encode_borrow/encode_copy, their closures, write/copy,
decode_borrow/decode_copy and InChunk::decode_borrow/decode_copy are the same skeleton up to the
push/push_copy substitution, and encode_anchored / the ZeroCopySink impl only delegate; (R2.5) bounded chunks:
every addition to current_chunk_size is followed by the assertion current <= max, the chunk is closed exactly
when the limit or a stuff sequence is reached, terminate asserts current < max before writing the last header
(the message ends on a short chunk); (R2.6) find_stuff_sequence is a single in-order loop over every window of its
whole argument returning the first window equal to STUFF_SEQUENCE (no block skipping).
NOT decided: absence of FE FD inside and across payload slices for all inputs, split-independence as an
equality of outputs, the numeric length bound (value-level).
(R2.7 = R4.1-R4.3, R4.6) what was drained early versus late: every consumer view and every consuming call
of the output iovec is clamped to the stable prefix, which stops at the still-open chunk header, so the
bytes are the same whenever they are drained.
"""

ASSUMPTIONS = ['OwningIovec delivers what was pushed (C03/C04)']

FLOORS = {'R2.1': 4, 'R2.2': 5, 'R2.3': 4, 'R2.4': 8, 'R2.5': 8, 'R2.6': 3, 'R2.7': 1}

ES = 'hcobs::encoder::EncoderState'


def r2_1(cx):
    """header digits: both bytes in [0, 252] under chunk_size < RADIX^2, casts exact"""
    prog = cx.prog
    fn = prog.fn(ES + '::encode_header')
    radix = prog.const_int('hcobs::RADIX')
    pe = PathEval(fn, {1: 'size'}, prog=prog)
    seen = []

    def on_call(st, pos, t, args):
        name = t.get('resp') or t.get('calleep') or ''
        if name.endswith('OwningIovec::backfill_or_panic'):
            seen.append((pos, dict(st.env), st))
    pe.on_call = on_call
    digits = []

    def on_return(path, st):
        # find the array aggregate
        for k, v in st.env.items():
            if isinstance(v, tuple) and v[0] == 'agg' and v[1] == 'array' and len(v[2]) == 3:
                digits.append([st.interval(x) if isinstance(x, Lin) else None for x in v[2]])
    pe.run(on_return)
    cx.count_paths(pe.paths)
    cx.check(len(seen) >= 1 and len(digits) >= 1, 'paths', fn, None, '%d path(s) reach the backfill' % len(seen), fail_detail='no path reaches backfill_or_panic')
    for i in (0, 1):
        ivs = [d[i] for d in digits]
        ok = all(iv is not None and 0 <= iv[0] and iv[1] < 0xFD for iv in ivs) and ivs
        cx.check(ok, 'digit%d' % i, fn, None, 'header byte %d ranges over %s: never 0xFD/0xFE' % (i, ivs[0] if ivs else '?'),
                 fail_detail='header byte %d can be as large as %s: a header byte may equal 0xFD or 0xFE and forge a stuff sequence' % (i, [iv[1] if iv else '?' for iv in ivs]))
    bad = [o for o in pe.obligations if not o['ok']]
    cx.check(not bad, 'exact', fn, None, '%d arithmetic obligations exact (casts to u8, RADIX*RADIX)' % len(pe.obligations),
             fail_detail='inexact arithmetic: %s' % (bad[0]['detail'] if bad else ''))
    cx.check(radix * radix - 1 == int.from_bytes(prog.const_field('hcobs::PROD_PARAMS', 'max_subsequent_size'), 'little'), 'limit-vs-radix', None, 'hcobs::PROD_PARAMS',
             'max_subsequent_size = RADIX^2 - 1, so every legal chunk size passes the header assertion', fail_detail='max_subsequent_size differs from RADIX^2-1')


def _stuff_idx(e, i):
    """STUFF_SEQUENCE[i]"""
    e = e.strip()
    return e.kind == 'proj' and e.op == 'index' and named_const(e.a, 'STUFF_SEQUENCE') and e.b is not None and e.b.is_const_int(i)


def r2_2(cx):
    """stuff constants wired consistently in the hold-back machinery"""
    prog = cx.prog
    # every one-byte push of the encoder is the held-back first stuff byte (write_partial_stuff_sequence, read through)
    sites = [(f, cs) for f in method_fns(prog, ES) if f.kind != 'Closure' for cs in f.calls('OwningIovec::push_copy') if _one_byte_push(cs)]
    bad = [(f, cs) for f, cs in sites if not _is_stuff0_push(prog, cs)]
    cx.check(len(sites) >= 2 and not bad, 'held-back-byte', sites[0][0] if sites else None, sites[0][1].loc() if sites else None,
             'the held-back byte is re-emitted as [STUFF_SEQUENCE[0]] (%d sites)' % len(sites),
             fail_detail='a one-byte push is not [STUFF_SEQUENCE[0]]: %s' % [show(cs.arg(1))[:60] for f, cs in bad] if bad else 'fewer than 2 held-back-byte emission sites')
    # hold-back discipline: the held-back byte leaves, and the flag changes, only when the next input is looked at
    # (consume_once) or at the end of the message (terminate) -- never between two calls, where the FD that
    # completes the sequence could still arrive
    allowed = {ES + '::consume_once', ES + '::terminate'}
    hcobs_fns = [f for f in prog.fns.values() if f.crate == 'hcobs' and f.kind != 'Closure' and not f.d.get('derived')]
    stray_push = [(f, cs) for f in hcobs_fns for cs in f.calls('OwningIovec::push_copy') if _one_byte_push(cs) and f.name not in allowed]
    stray_flag = [(f, pos) for f in hcobs_fns for pos, pl, rv in f.stores() if pl['p'] and pl['p'][-1].get('n') == 'maybe_mid_stuff' and f.name not in allowed]
    cx.check(not stray_push and not stray_flag, 'hold-back-only-in-state-machine', (stray_push or stray_flag or [(None, None)])[0][0], None,
             'the held-back byte is emitted and maybe_mid_stuff written only in consume_once / terminate',
             fail_detail='%s releases the held-back 0xFE (or rewrites the flag) outside consume_once / terminate: an FE FD split across two calls reaches the output'
             % sorted({short(f.name) for f, _ in stray_push + stray_flag}))
    co = prog.fn(ES + '::consume_once')
    # hold-back test: self.maybe_mid_stuff = input[len-1] == STUFF_SEQUENCE[0]
    hb = False
    for pos, st in co.statements():
        if st['k'] == 'assign' and st['pl']['p'] and st['pl']['p'][-1].get('n') == 'maybe_mid_stuff':
            v = co.rvalue_expr(st['rv']).strip()
            if v.kind == 'binop' and v.op == 'Eq':
                for x, y in ((v.a, v.b), (v.b, v.a)):
                    def last_byte(xs):
                        xs = xs.strip()
                        return xs.kind == 'proj' and xs.op == 'index' and xs.b is not None and xs.b.strip().kind == 'binop' \
                            and xs.b.strip().op == 'Sub' and is_call(xs.b.strip().a, 'len') and xs.b.strip().b.is_const_int(1)
                    if _stuff_idx(y, 0) and all(last_byte(a) for a in phi_alts(x)):
                        hb = True
            # the same test spelled input.last() == Some(&STUFF_SEQUENCE[0]) (rustc promotes the right-hand side to one
            # constant: recognised by the byte it points to)
            if v.kind == 'call' and v.op.endswith('::eq') and len(v.args) == 2:
                for x, y in ((v.args[0].strip(), v.args[1].strip()), (v.args[1].strip(), v.args[0].strip())):
                    seq = prog.const_bytes('hcobs::STUFF_SEQUENCE').hex()
                    if is_call(x, 'last') and x.args[0].strip().kind in ('param', 'phi', 'call', 'proj', 'local') and y.kind == 'const' \
                            and 'Option<&u8>' in str(y.info.get('ty', '')) and (y.info.get('ptr_to_bytes') or '')[:2] == seq[:2]:
                        hb = True
    cx.check(hb, 'hold-back-test', co, None, 'maybe_mid_stuff := input[len-1] == STUFF_SEQUENCE[0]', fail_detail='the hold-back test does not compare the last byte with STUFF_SEQUENCE[0]')
    # completion test: maybe_mid_stuff & (input[0] == STUFF_SEQUENCE[1])
    comp = False
    for b in co.live_blocks():
        e = co.switch_expr(b) if co.term(b)['k'] == 'switch' else None
        if e is not None and e.kind == 'binop' and e.op == 'BitAnd':
            for x, y in ((e.a, e.b), (e.b, e.a)):
                ys = y.strip()
                if any(n.kind == 'proj' and n.info.get('n') == 'maybe_mid_stuff' for n in x.walk()) and ys.kind == 'binop' and ys.op == 'Eq':
                    for p, q in ((ys.a, ys.b), (ys.b, ys.a)):
                        def first_byte(ps):
                            ps = ps.strip()
                            return ps.kind == 'proj' and ps.op == 'index' and ps.b is not None and ps.b.is_const_int(0)
                        if _stuff_idx(q, 1) and all(first_byte(a) for a in phi_alts(p)):
                            comp = True
    cx.check(comp, 'completion-test', co, None, 'a held-back FE followed by input[0] == STUFF_SEQUENCE[1] closes the chunk',
             fail_detail='the completion test is not maybe_mid_stuff & (input[0] == STUFF_SEQUENCE[1])')
    # a found sequence consumes index + STUFF_SEQUENCE.len()
    seq = prog.const_bytes('hcobs::STUFF_SEQUENCE')
    cons = False
    for pos, st in co.statements():
        if st['k'] == 'assign' and st['rv']['k'] == 'agg' and st['rv']['ak'] == 'tuple' and len(st['rv']['ops']) == 2:
            t = co.rvalue_expr(st['rv']).strip()
            a, b = t.args[0].strip(), t.args[1].strip()
            if a.kind == 'proj' and a.has_call('find_stuff_sequence') and b.kind == 'binop' and b.op == 'Add' and show(b.a.strip()) == show(a) and \
                    is_call(b.b, 'len') and any(k.info.get('ref_bytes') == seq.hex() for k in b.b.consts()):
                cons = True
    cx.check(cons, 'consume-sequence', co, None, 'found at index i: write i bytes, consume i + STUFF_SEQUENCE.len()', fail_detail='a found stuff sequence is not skipped by exactly STUFF_SEQUENCE.len() bytes')


def _remaining(e):
    e = e.strip()
    return e.kind == 'binop' and e.op == 'Sub' and is_call(e.a, 'NonZero::get') and is_param_field(e.a.strip().args[0], 'max_chunk_size') \
        and is_param_field(e.b, 'current_chunk_size')


def r2_3(cx):
    """truncate-then-search: find_stuff_sequence sees input[..min(len, remaining)]; writer lengths are find | remaining | len(-1)"""
    prog = cx.prog
    co = prog.fn(ES + '::consume_once')
    finds = list(co.calls('hcobs::find_stuff_sequence'))
    cx.require(len(finds) == 1, 'consume_once no longer calls find_stuff_sequence exactly once')
    f = finds[0]
    a = f.t['args'][0]
    # the argument is &(*input_local): find the local
    e = f.arg(0)
    src = None
    for pos, st in co.statements():
        if st['k'] == 'assign' and st['pl']['l'] == a['pl']['l'] and st['rv']['k'] == 'ref':
            src = st['rv']['pl']['l']
    cx.require(src is not None, 'cannot identify the window handed to find_stuff_sequence')
    rd = co.reaching_defs(src, f.pos)
    ok = len(rd) == 1 and rd[0][0] == 'assign'
    detail = 'reaching definitions of the window: %s' % rd
    if ok:
        p = rd[0][1]
        v = co.rvalue_expr(co.blocks[p.bb]['st'][p.idx]['rv']).strip()
        ok = is_call(v, 'Index<I>>::index') and v.args[1].strip().kind == 'agg' and v.args[1].strip().info.get('variant') == 'RangeTo'
        if ok:
            end = v.args[1].strip().args[0].strip()
            ok = is_call(end, 'Ord::min') and any(is_call(x, 'len') for x in end.args) and any(_remaining(x) for x in end.args)
            detail = 'window = input[..%s]' % show(end)[:120]
    cx.count_paths()
    cx.check(ok, 'window', co, f.loc(), 'the only definition reaching the search is input = &input[..min(len, max - current)]',
             fail_detail='find_stuff_sequence can see bytes beyond the remaining chunk capacity (%s)' % detail)
    # writer lengths
    ws = [cs for cs in co.calls() if 'FnOnce' in cs.callee or 'call_once' in cs.callee]
    cx.check(len(ws) == 2, 'writer-sites', co, None, '2 writer call sites', fail_detail='%d writer call sites' % len(ws))
    for i, w in enumerate(ws):
        cx.count_sites()
        tup = w.arg(1).strip()
        n = tup.args[-1] if tup.kind == 'agg' else tup
        kinds = set()
        for alt in phi_alts(n):
            alt = alt.strip()
            if alt.kind == 'proj' and alt.has_call('find_stuff_sequence') and len(list(alt.calls())) >= 1 and not any(x.kind == 'binop' for x in alt.walk() if x is not alt and x.kind == 'binop' and x.op == 'Add'):
                kinds.add('find')
            elif _remaining(alt):
                kinds.add('remaining')
            elif is_call(alt, 'len'):
                kinds.add('len')
            elif alt.kind == 'binop' and alt.op == 'Sub' and is_call(alt.a, 'len') and alt.b.is_const_int(1):
                kinds.add('len-1')
            elif alt.kind == 'binop' and alt.op == 'Sub' and is_call(alt.a, 'len') and _bool_as_int(alt.b):
                kinds |= {'len', 'len-1'}      # len - (flag as usize): one or the other
            else:
                kinds.add('other:' + show(alt)[:60])
        ok = kinds <= {'find', 'remaining', 'len', 'len-1'} and kinds
        cx.check(ok, 'writer-length#%d' % i, co, w.loc(), 'length written is one of %s' % sorted(kinds), fail_detail='the writer can be handed %s' % sorted(kinds))
    # the mandatory end of chunk: input.len() == remaining
    me = False
    for b in co.live_blocks():
        rel = as_relation((co.switch_expr(b), True)) if co.term(b)['k'] == 'switch' else None
        if rel and rel[0] == 'Eq' and ((is_call(rel[1], 'len') and _remaining(rel[2])) or (is_call(rel[2], 'len') and _remaining(rel[1]))):
            me = True
    cx.check(me, 'mandatory-end', co, None, 'chunk closes when the truncated window fills the remaining capacity (len == remaining)',
             fail_detail='no test for the mandatory end of chunk (input.len() == remaining)')


def _bool_as_int(e):
    """usize::from(b) / b as usize for a boolean b (a comparison, or the hold-back flag): 0 or 1"""
    c = e.strip()
    if c.kind == 'call' and 'From<bool>' in c.op and len(c.args) == 1:
        return True
    inner = e
    while inner is not None and inner.kind in ('cast',):
        inner = inner.a
    inner = inner.strip() if inner is not None else None
    return inner is not None and inner is not e and ((inner.kind == 'binop' and inner.op in ('Eq', 'Ne')) or is_param_field(inner, 'maybe_mid_stuff'))


PAIRS = [
    (ES + '::encode_borrow', ES + '::encode_copy', {'encode_borrow': 'encode_X', 'encode_copy': 'encode_X'}),
    (ES + '::encode_borrow::{closure#0}', ES + '::encode_copy::{closure#0}', {'EncoderState::write': 'EncoderState::W', 'EncoderState::copy': 'EncoderState::W'}),
    (ES + '::write', ES + '::copy', {'OwningIovec::push_copy': 'OwningIovec::P', 'OwningIovec::push': 'OwningIovec::P'}),
    ('hcobs::decoder::DecoderState::decode_borrow', 'hcobs::decoder::DecoderState::decode_copy', {'decode_borrow': 'decode_X', 'decode_copy': 'decode_X'}),
    ('hcobs::decoder::InChunk::decode_borrow', 'hcobs::decoder::InChunk::decode_copy', {'OwningIovec::push_copy': 'OwningIovec::P', 'OwningIovec::push': 'OwningIovec::P'}),
]


def r2_4(cx):
    """sibling agreement: the borrowing and copying input methods are the same state machine"""
    prog = cx.prog
    for a, b, sub in PAIRS:
        fa, fb = prog.fn(a), prog.fn(b)
        d = diff(skeleton(fa, sub, canonical=True), skeleton(fb, sub, canonical=True))
        cx.count_sites()
        cx.check(d is None, 'twins:%s' % short(a), fa, None, '%s == %s up to %s' % (short(a), short(b), '/'.join(sorted(set(sub.values())))),
                 fail_detail='%s and %s diverge (block %s): %s  VS  %s' % (short(a), short(b), d[0] if d else '', d[1][:150] if d else '', d[2][:150] if d else ''))
    # both public encode methods run the same closure-less driver with their twin
    for pub, inner in (('hcobs::Encoder::encode', ES + '::encode_borrow'), ('hcobs::Encoder::encode_copy', ES + '::encode_copy'),
                       ('hcobs::Decoder::decode', 'hcobs::decoder::DecoderState::decode_borrow'), ('hcobs::Decoder::decode_copy', 'hcobs::decoder::DecoderState::decode_copy')):
        f = prog.fn(pub)
        tgt = prog.fn(inner)
        sm = [cs for cs in f.calls() if ('EncoderState' in cs.callee or 'DecoderState' in cs.callee) and not cs.callee.endswith('::default') and 'Default' not in cs.callee]
        cx.check(len(sm) == 1 and sm[0].matches(tgt), 'entry:%s' % short(pub), f, None, '%s -> %s' % (short(pub), short(inner)),
                 fail_detail='%s drives %s' % (short(pub), [short(c.callee) for c in sm]))
    for pub, inner in (('hcobs::Encoder::encode_anchored', 'hcobs::Encoder::encode'), ('hcobs::Decoder::decode_anchored', 'hcobs::Decoder::decode')):
        f, tgt = prog.fn(pub), prog.fn(inner)
        cs = list(f.calls(tgt))
        other = [c for c in f.calls() if ('EncoderState' in c.callee or 'DecoderState' in c.callee)]
        cx.check(len(cs) == 1 and not other, 'anchored:%s' % short(pub), f, None, '%s delegates to %s' % (short(pub), short(inner)),
                 fail_detail='%s does not simply delegate' % short(pub))
    for m, inner in (('append_copy', 'hcobs::Encoder::encode_copy'), ('append_borrow', 'hcobs::Encoder::encode')):
        fs = [f for f in prog.fns.values() if f.crate == 'hcobs' and f.name.endswith('ZeroCopySink<\'this>>::' + m)]
        cx.require(len(fs) == 1, 'ZeroCopySink::%s impl for Encoder not found' % m)
        cs = list(fs[0].calls(prog.fn(inner)))
        cx.check(len(cs) == 1 and len(list(fs[0].calls())) == 1, 'sink:' + m, fs[0], None, 'ZeroCopySink::%s == %s' % (m, short(inner)), fail_detail='the sink impl does more than delegate')


def _first_byte_slice(e):
    """`X[..1]` / `X[0..1]` of a constant array X: returns the node of X, else None"""
    e = e.strip()
    if not is_call(e, 'Index<I>>::index') or len(e.args) != 2:
        return None
    rng = e.args[1].strip()
    nm = rng.info.get('name', '') if rng.kind == 'agg' else ''
    one = (nm.endswith('::RangeTo') and len(rng.args) == 1 and rng.args[0].is_const_int(1)) or \
        (nm.endswith('::Range') and len(rng.args) == 2 and rng.args[0].is_const_int(0) and rng.args[1].is_const_int(1))
    x = e.args[0].strip()
    return x if one and x.kind == 'const' else None


def _is_stuff0_push(prog, cs):
    """push_copy(&[STUFF_SEQUENCE[0]]) (or &STUFF_SEQUENCE[..1])"""
    seq0 = prog.const_bytes('hcobs::STUFF_SEQUENCE')[:1].hex()
    a = cs.arg(1)
    x = _first_byte_slice(a)
    if x is not None and (named_const(x, 'STUFF_SEQUENCE') or x.info.get('ref_bytes') == prog.const_bytes('hcobs::STUFF_SEQUENCE').hex()):
        return True
    return any(n.kind == 'agg' and n.info.get('ak') == 'array' and len(n.args) == 1 and _stuff_idx(n.args[0], 0) for n in a.walk()) \
        or any(k.info.get('ref_bytes') == seq0 and k.info.get('ty') == '&[u8; 1]' for k in a.consts())


def _one_byte_push(cs):
    a = cs.arg(1)
    return _first_byte_slice(a) is not None or any(n.kind == 'agg' and n.info.get('ak') == 'array' and len(n.args) == 1 for n in a.walk()) or any(k.info.get('ty') == '&[u8; 1]' for k in a.consts())


def r2_5(cx):
    """bounded chunks: every growth of current_chunk_size is asserted <= max; terminate asserts < max"""
    prog = cx.prog
    # (write_partial_stuff_sequence is read through: it is always inlined into its callers, see normalize.ALWAYS_INLINE)
    n_growth = 0
    for fn in method_fns(prog, ES):
        if fn.kind == 'Closure':
            continue
        stores = [(pos, fn.rvalue_expr(rv).strip()) for pos, pl, rv in fn.stores() if pl['p'] and pl['p'][-1].get('n') == 'current_chunk_size' and rv is not None]
        pushes = [cs for cs in fn.calls() if cs.matches('OwningIovec::push') or cs.matches('OwningIovec::push_copy')]
        for k, (pos, v) in enumerate(stores):
            cx.count_sites()
            n_growth += 1
            inst = 'asserted:%s#%d' % (short(fn.name).split('::')[-1], k)
            ok = v.kind == 'binop' and v.op == 'Add' and any(is_param_field(x, 'current_chunk_size') for x in (v.a, v.b))
            what = '?'
            if ok:
                inc = (v.b if is_param_field(v.a, 'current_chunk_size') else v.a).strip()
                before = [p for p in pushes if fn.pos_dominates(p.pos, pos)]
                if inc.is_const_int(1) or (not inc.is_const_int() and int_or_const_len(prog, inc) == 1):
                    # the held-back byte: one push of [STUFF_SEQUENCE[0]] before the count moves by one
                    ok = any(_is_stuff0_push(prog, p) for p in before)
                    what = 'push_copy(&[STUFF_SEQUENCE[0]]); current_chunk_size += 1'
                else:
                    ok = is_call(inc, 'len') and inc.args[0].strip().kind == 'param' and len(pushes) == 1 and len(before) == 1 and \
                        before[0].arg(1).strip().kind == 'param' and before[0].arg(1).strip().info['i'] == inc.args[0].strip().info['i']
                    what = 'push(payload); current_chunk_size += payload.len() (the same payload)'
            if ok:
                # after the store, every path to return passes the edge asserting current <= max
                asserts = []
                for b in fn.live_blocks():
                    be = fn.bool_edges(b)
                    if be is None:
                        continue
                    rel = as_relation((fn.switch_expr(b), True))
                    if rel and rel[0] == 'Le' and is_param_field(rel[1], 'current_chunk_size') and is_call(rel[2], 'NonZero::get') \
                            and fn.path(be[0], fn.returns()) is None and (fn.pos_dominates(pos, Pos(b, 0)) or pos.bb == b):
                        asserts.append(b)
                ok = bool(asserts) and (pos.bb in asserts or fn.path(pos.bb, fn.returns(), cut_blocks=asserts) is None)
            cx.check(ok, inst, fn, fn.loc(pos.bb, pos.idx), what + '; assert!(current_chunk_size <= max_chunk_size)',
                     fail_detail='%s changes current_chunk_size without (the matching push and) the limit assertion' % short(fn.name))
    cx.check(n_growth >= 4, 'growth-sites', None, 'hcobs/src/encoder.rs', '%d stores grow current_chunk_size' % n_growth, fail_detail='only %d growth sites found' % n_growth)
    tm = prog.fn(ES + '::terminate')
    eh = list(tm.calls(ES + '::encode_header'))
    ok = len(eh) == 1 and any((r := as_relation((e, v))) and r[0] == 'Lt' and is_param_field(r[1], 'current_chunk_size') and is_call(r[2], 'NonZero::get')
                              for e, v, ed in tm.facts_at(eh[0].bb))
    cx.check(ok, 'ends-short', tm, eh[0].loc() if eh else None, 'terminate writes the last header only where current < max (a short chunk)',
             fail_detail='terminate can close a full chunk: the stream would not end on a short chunk')
    co = prog.fn(ES + '::consume_once')
    eh = list(co.calls(ES + '::encode_header'))
    ns = list(co.calls(ES + '::new_subsequent'))
    ok = len(eh) == 1 and len(ns) == 1 and co.pos_dominates(eh[0].pos, ns[0].pos) and is_param_field(eh[0].arg(0), 'current_chunk_size') and is_param_field(eh[0].arg(2), 'backref')
    cx.check(ok, 'close-then-open', co, eh[0].loc() if eh else None, 'encode_header(current, backref) dominates new_subsequent', fail_detail='a chunk is opened before the previous header is written')
    pre = False
    for e, v, ed in co.facts_at(list(co.calls('hcobs::find_stuff_sequence'))[0].bb):
        r = as_relation((e, v))
        if r and r[0] == 'Lt' and is_param_field(r[1], 'current_chunk_size') and is_call(r[2], 'NonZero::get'):
            pre = True
    cx.check(pre, 'room-left', co, None, 'the search runs only where current < max (remaining > 0)', fail_detail='remaining can be 0 when the window is computed')


def check_find_stuff(cx):
    """find_stuff_sequence examines every adjacent byte pair of its whole argument, in order, and returns the first match"""
    prog = cx.prog
    fn = prog.fn('hcobs::find_stuff_sequence')
    seq = prog.const_bytes('hcobs::STUFF_SEQUENCE').hex()
    heads = fn.loop_headers()
    pi = position_idiom(prog, fn.local_expr(0, [])) if not heads else None
    if pi is not None:
        # iterator-chain spelling: bytes.windows(2).position(|w| w == STUFF_SEQUENCE)
        it, cl, ret = pi
        cx.check(len(list(fn.calls())) <= 3 and len(list(cl.calls())) == 1, 'scan:one-loop', fn, None, 'a single Iterator::position over one iterator',
                 fail_detail='more than the window iterator and its position search')
        wi = list(it.calls('windows'))

        def is_two(e):
            e = e.strip()
            if e.is_const_int(2):
                return True
            return e.kind == 'call' and e.op.endswith('len') and len(e.args) == 1 and [k.info.get('ref_bytes') for k in e.args[0].consts()] == [seq] \
                and len(list(e.args[0].calls())) == 0
        ok_it = len(wi) == 1 and len(list(it.calls())) <= 2 and wi[0].args[0].strip().kind == 'param' and is_two(wi[0].args[1])
        cx.check(ok_it, 'scan:all-windows', fn, None, 'iterates bytes.windows(2) over the whole argument', fail_detail='the scan does not run over every window of the whole argument')
        ok_s = ret.kind == 'call' and ret.op.endswith('::eq') and len(ret.args) == 2 and any(k.info.get('ref_bytes') == seq for k in ret.consts()) and \
            any(a.strip().kind == 'param' and a.strip().info['i'] == 2 for a in ret.args) and len(list(ret.calls())) == 1
        cx.check(ok_s, 'scan:first-match', fn, None, 'position(|w| w == STUFF_SEQUENCE): the index of the first equal window, None only when exhausted',
                 fail_detail='the result is not (index of the first window == STUFF_SEQUENCE | None at exhaustion)')
        return
    rnx = [cs for cs in fn.calls() if cs.callee.endswith('Range<A> as std::iter::Iterator>::next') or cs.callee.endswith('Range<usize> as std::iter::Iterator>::next')]
    if len(heads) == 1 and len(rnx) == 1 and not list(fn.calls('windows')):
        # index-loop spelling: for i in 0..len.saturating_sub(1) { if bytes[i..i + 2] == STUFF_SEQUENCE { return Some(i) } } None
        def seq_len(e, minus=0):
            e = e.strip()
            if e.is_const_int(2 - minus):
                return True
            if minus and e.kind == 'binop' and e.op == 'Sub' and e.b.is_const_int(minus):
                return seq_len(e.a)
            return e.kind == 'call' and e.op.endswith('len') and [k.info.get('ref_bytes') for k in e.args[0].consts()] == [seq] and not list(e.args[0].calls())
        it = rnx[0].arg(0)
        rng = [n for n in it.walk() if n.kind == 'agg' and n.info.get('variant') == 'Range' and len(n.args) == 2]
        ok_it = len(rng) == 1 and rng[0].args[0].is_const_int(0) and is_call(rng[0].args[1], 'saturating_sub') and \
            is_call(rng[0].args[1].strip().args[0], 'len') and rng[0].args[1].strip().args[0].strip().args[0].strip().kind == 'param' and \
            seq_len(rng[0].args[1].strip().args[1], minus=1) and not any(c.op.rsplit('::', 1)[-1] in ('rev', 'skip', 'step_by', 'take', 'filter') for c in it.calls())
        cx.check(True, 'scan:one-loop', fn, None, 'a single loop over the window start positions')
        cx.check(ok_it, 'scan:all-windows', fn, rnx[0].loc(), 'iterates i over 0..len.saturating_sub(1): every window start of the whole argument, in order',
                 fail_detail='the scan does not run over every window of the whole argument')
        somes = [pos for pos, st in fn.statements() if st['k'] == 'assign' and st['pl']['l'] == 0 and st['rv']['k'] == 'agg' and st['rv']['variant'] == 'Some']
        nones = [pos for pos, st in fn.statements() if st['k'] == 'assign' and st['pl']['l'] == 0 and st['rv']['k'] == 'agg' and st['rv']['variant'] == 'None']
        ok_s = len(somes) == 1 and len(nones) == 1
        if ok_s:
            pos = somes[0]
            v = fn.operand_expr(fn.blocks[pos.bb]['st'][pos.idx]['rv']['ops'][0]).strip()
            idx_ok = v.kind == 'proj' and any(c.pos == rnx[0].pos for c in v.calls()) and not any(n.kind == 'binop' for n in v.walk() if n is not v and n.kind == 'binop' and n.op != 'Sub')
            idx_ok = v.kind == 'proj' and any(c.pos == rnx[0].pos for c in v.calls()) and show(v).count('Add(') == 0
            eq_ok = False
            for e, val, edge in fn.facts_at(pos.bb):
                x = e.strip()
                if val is True and x.kind == 'call' and x.op.endswith('::eq') and any(k.info.get('ref_bytes') == seq for a in x.args for k in a.consts() if not a.has_call('index')):
                    for a in x.args:
                        a = a.strip()
                        if is_call(a, 'Index<I>>::index') and a.args[0].strip().kind == 'param':
                            r = a.args[1].strip()
                            if r.kind == 'agg' and r.info.get('variant') == 'Range' and show(r.args[0].strip()) == show(v):
                                hi = r.args[1].strip()
                                if hi.kind == 'binop' and hi.op == 'Add' and show(hi.a.strip()) == show(v) and seq_len(hi.b):
                                    eq_ok = True
            none_ok = any(e.kind == 'discr' and val == ('in', frozenset([0])) and any(c.pos == rnx[0].pos for c in e.calls()) for e, val, edge in fn.facts_at(nones[0].bb))
            ok_s = idx_ok and eq_ok and none_ok
        cx.check(ok_s, 'scan:first-match', fn, None, 'Some(i) exactly at the first i with bytes[i..i+2] == STUFF_SEQUENCE, None only when exhausted',
                 fail_detail='the result is not (index of the first window == STUFF_SEQUENCE | None at exhaustion)')
        return
    cx.check(len(heads) == 1, 'scan:one-loop', fn, None, 'a single loop', fail_detail='%d loops: not a plain linear scan (blocks skipped or searched separately can hide a sequence that straddles them)' % len(heads))
    nxt = [cs for cs in fn.calls('Iterator>::next')]
    ok_it = False
    if len(nxt) == 1:
        it = nxt[0].arg(0)
        en = [c for c in it.calls('enumerate')]
        wi = [c for c in it.calls('windows')]
        ok_it = len(en) == 1 and len(wi) == 1 and wi[0].args[0].strip().kind == 'param' and wi[0].args[1].is_const_int(2) and \
            any(c.pos == wi[0].pos for c in en[0].args[0].calls('windows')) and len(list(it.calls())) <= 4
    cx.check(ok_it, 'scan:all-windows', fn, nxt[0].loc() if nxt else None, 'iterates bytes.windows(2).enumerate() over the whole argument',
             fail_detail='the scan does not run over every window of the whole argument')
    somes = [pos for pos, st in fn.statements() if st['k'] == 'assign' and st['pl']['l'] == 0 and st['rv']['k'] == 'agg' and st['rv']['variant'] == 'Some']
    nones = [pos for pos, st in fn.statements() if st['k'] == 'assign' and st['pl']['l'] == 0 and st['rv']['k'] == 'agg' and st['rv']['variant'] == 'None']
    # (an early `return None` for inputs shorter than one window says what the scan would say)
    short_none = [p for p in nones if any((r := as_relation((e, v))) and r[0] == 'Lt' and is_call(r[1], 'len') and r[1].strip().args[0].strip().kind == 'param'
                                          and (r[2].is_const_int(2) or (is_call(r[2], 'len') and [k.info.get('ref_bytes') for k in r[2].strip().args[0].consts()] == [seq]))
                                          for e, v, ed in fn.facts_at(p.bb))]
    nones = [p for p in nones if p not in short_none]
    ok_s = len(somes) == 1 and len(nones) == 1 and len(nxt) == 1
    if ok_s:
        pos = somes[0]
        v = fn.operand_expr(fn.blocks[pos.bb]['st'][pos.idx]['rv']['ops'][0]).strip()
        idx_ok = v.kind == 'proj' and any(c.pos == nxt[0].pos for c in v.calls()) and len(list(v.calls())) == len(list(nxt[0].arg(0).calls())) + 1 \
            and not any(n.kind == 'binop' for n in v.walk())
        eq_ok = False
        for e, val, edge in fn.facts_at(pos.bb):
            x = e.strip()
            if val is True and x.kind == 'call' and x.op.endswith('::eq') and any(k.info.get('ref_bytes') == seq for k in x.consts()) and \
                    any(c.pos == nxt[0].pos for c in x.calls()):
                eq_ok = True
        none_ok = any(e.kind == 'discr' and val == ('in', frozenset([0])) and any(c.pos == nxt[0].pos for c in e.calls()) for e, val, edge in fn.facts_at(nones[0].bb))
        ok_s = idx_ok and eq_ok and none_ok
    cx.check(ok_s, 'scan:first-match', fn, None, 'Some(i) exactly at the first window equal to STUFF_SEQUENCE (i = enumerate index), None only when exhausted',
             fail_detail='the result is not (index of the first window == STUFF_SEQUENCE | None at exhaustion)')


def r2_6(cx):
    """find_stuff_sequence is an exhaustive in-order scan (a sequence straddling skipped blocks would leak into the output)"""
    check_find_stuff(cx)


def r2_7(cx):
    """drain-schedule independence: the consumer only ever sees and removes the stable prefix, which stops at the open chunk header (R4.1-R4.3, R4.6)"""
    from . import c04
    from . import c03
    compose(cx, [('R4.1', c04.r4_1), ('R4.2', c04.r4_2), ('R4.3', c04.r4_3), ('R4.5', c04.r4_5), ('R4.6', c04.r4_6), ('R3.3', c03.r3_3)])


def r2_8(cx):
    """input-method independence: bytes that came in through encode_anchored / encode_read are backed by their anchor until drained (R5.3, R5.4, R5.7, R17.6)"""
    from . import c05, c17
    compose(cx, [('R5.3', c05.r5_3), ('R5.4', c05.r5_4), ('R5.7', c05.r5_7), ('R5.8', c05.r5_8), ('R17.6', c17.r17_6)])


RULES = [('R2.1', r2_1), ('R2.2', r2_2), ('R2.3', r2_3), ('R2.4', r2_4), ('R2.5', r2_5), ('R2.6', r2_6), ('R2.7', r2_7), ('R2.8', r2_8)]
RULES.append(('R2.9', scan_rule(('hcobs::encoder::', 'hcobs::find_stuff_sequence', 'hcobs::Encoder'))))
FLOORS['R2.9'] = 1
