"""C19 — the NFS base time only moves forward and only on evidence from trusted devices (module-level mechanisms)."""
from .util import *  # noqa: F401,F403
from .abt import ABT
from . import c13
from engine.woodlint.db import Pos, as_relation, show

PROPERTY = 'C19'

EXPLANATION = """
Static analysis of vouched_time::nfs_voucher (+ the cell it writes).  Decided: (R19.1) in update_base_time
the two cell updates (AtomicBaseTime::update / try_update on the static BASE_TIME) are cut off from entry
by the pair of edges {TRUSTED_PATHS.contains_key(dev), extra_device == Some(dev)} with dev =
metadata(file).dev() of the file parameter; (R19.2) the value handed to the cell is computed only from
ctime()/ctime_nsec() of that same metadata with saturating arithmetic and the voucher is
VOUCH_PARAMS.vouch of that same value; (R19.3) update/try_update of the cell are called only from
update_base_time, on the private static, which no function returns or exposes; (R19.4) TRUSTED_PATHS is
written only in add_trusted_path, after update_base_time succeeded with Some for extra_device = the very
dev that is inserted; (R19.5) the untrusted edge returns Ok((stat, None)) without touching the cell;
(R19.6) forward-only = R13.4+R13.5 re-evaluated here; (R19.7) the `checking` half of both VOUCH_PARAMS
constants equals BASE_TIME_CHECK byte for byte (compile-time evaluation), and the parameters passed to
vouch() are that constant; (R19.8) get_base_time_unlocked returns BASE_TIME.snapshot() and nothing else;
get_base_time returns only values produced by update_base_time or by that snapshot.
NOT decided: behaviour of the file system (that ctime is what the device reports), histories as a whole.
"""

ASSUMPTIONS = [
    'std::fs metadata reports the device and change time of the file it was called on',
    'raffle: a VouchingParameters constant whose checking half equals CheckingParameters vouches values that check',
]

FLOORS = {'R19.1': 3, 'R19.2': 3, 'R19.3': 3, 'R19.4': 3, 'R19.5': 3, 'R19.6': 1, 'R19.7': 3, 'R19.8': 2}


class NV:
    def __init__(self, cx):
        prog = cx.prog
        self.m = ABT(cx)
        self.ubt = prog.fn('nfs_voucher::update_base_time')
        self.add = prog.fn('nfs_voucher::add_trusted_path')
        self.sinks = [cs for cs in self.ubt.calls() if cs.key in (self.m.update.key, self.m.try_update.key)]
        cx.require(self.sinks, 'update_base_time no longer updates the cell')

    def is_static(self, e, suffix):
        e = e.strip()
        return e.kind == 'const' and (e.info.get('staticp') or '').endswith(suffix)

    def dev_of_param_file(self, e, fn, param=1, via_open=False):
        """e == MetadataExt::dev(&metadata(file)) with file the parameter (or, in add_trusted_path, the opened file)"""
        e = e.strip()
        if not is_call(e, 'MetadataExt>::dev'):
            return None
        md = self.metadata_call(e.args[0])
        return md

    def metadata_call(self, e):
        """the File::metadata call node under Try::branch/Continue projections, else None"""
        for c in e.calls('File::metadata'):
            return c
        return None


def _gate_edges(nv):
    """[(kind, edge)] of the trusted-device tests of update_base_time, and the positions of the metadata calls they test"""
    fn = nv.ubt
    gate_edges = []
    md_positions = set()
    for b in sorted(fn.live_blocks()):
        be = fn.bool_edges(b)
        if be is None:
            continue
        e = fn.switch_expr(b)
        f_t, t_t = be
        # (`if !trusted` tests the same thing with the arms exchanged)
        while e is not None and e.strip().kind == 'unop' and e.strip().op == 'Not':
            e = e.strip().a
            f_t, t_t = t_t, f_t
        # TRUSTED_PATHS.contains_key(&dev)
        if is_call(e, 'BTreeMap::contains_key'):
            c = e.strip()
            recv_ok = any(nv.is_static(x, 'TRUSTED_PATHS') for x in c.args[0].walk())
            md = nv.dev_of_param_file(c.args[1], fn)
            if recv_ok and md is not None and md.args[0].strip().kind == 'param':
                gate_edges.append(('trusted-table', (b, t_t)))
                md_positions.add(md.pos)
        rel = as_relation((e, True))
        if rel and rel[0] in ('Eq', 'Ne'):
            a, c2 = rel[1].strip(), rel[2].strip()
            for x, y in ((a, c2), (c2, a)):
                root, path = field_path(x)
                if root.kind == 'param' and path and path[-1] == 'extra_device' and y.kind == 'agg' and y.info.get('variant') == 'Some':
                    md = nv.dev_of_param_file(y.args[0], fn)
                    if md is not None and md.args[0].strip().kind == 'param':
                        eq_edge = (b, t_t) if rel[0] == 'Eq' else (b, f_t)
                        gate_edges.append(('extra-device', eq_edge))
                        md_positions.add(md.pos)
    return gate_edges, md_positions


def r19_1(cx):
    """device gate: the cell updates are cut off by {contains_key(TRUSTED_PATHS, dev), extra_device == Some(dev)}"""
    nv = NV(cx)
    fn = nv.ubt
    gate_edges, md_positions = _gate_edges(nv)
    kinds = {k for k, _ in gate_edges}
    cx.check('trusted-table' in kinds, 'gate:trusted-table', fn, None, 'contains_key(TRUSTED_PATHS, &metadata(file).dev()) guards the update',
             fail_detail='no lookup of the file\'s device in TRUSTED_PATHS found')
    cx.check(len(md_positions) == 1, 'same-metadata', fn, None, 'both gates test the device of one File::metadata(file) call',
             fail_detail='the gates test devices of different metadata calls: %s' % sorted(md_positions))
    edges = [e for _, e in gate_edges]
    for cs in nv.sinks:
        cx.count_sites()
        cx.count_paths()
        ok = fn.is_cut(edges, [cs.bb])
        w = None if ok else fn.path(0, [cs.bb], cut_edges=edges)
        cx.check(ok, 'cut:' + short(cs.callee), fn, cs.loc(), 'unreachable once the %d trusted-device edges %s are removed' % (len(edges), edges),
                 fail_detail='the cell update is reachable without passing a trusted-device edge: %s' % fn.show_path(w))
        cx.check(nv.is_static(cs.arg(0), 'BASE_TIME'), 'cell:' + short(cs.callee), fn, cs.loc(), 'the cell is the static BASE_TIME',
                 fail_detail='update on something other than BASE_TIME: %s' % show(cs.arg(0)))


def r19_2(cx):
    """the value is that file's ctime: rooted only in ctime()/ctime_nsec() of the same metadata, voucher = vouch(same value)"""
    nv = NV(cx)
    fn = nv.ubt
    for cs in nv.sinks:
        cx.count_sites()
        upd = cs.arg(1).strip()
        ok = upd.kind == 'agg' and len(upd.args) == 2
        if not ok:
            cx.fail('value:' + short(cs.callee), fn, cs.loc(), 'the update is not a (value, voucher) tuple literal: %s' % show(upd))
            continue
        val, vch = upd.args[0].strip(), upd.args[1].strip()
        # leaves of val: only ctime/ctime_nsec calls on one metadata + integer constants, ops saturating/Div
        mds = set()
        bad = []
        for n in val.walk():
            if n.kind == 'call':
                nm = n.op
                if nm.endswith('MetadataExt>::ctime') or nm.endswith('MetadataExt>::ctime_nsec'):
                    md = nv.metadata_call(n.args[0])
                    mds.add(md.pos if md is not None else None)
                elif nm.endswith('saturating_mul') or nm.endswith('saturating_add') or nm.endswith('Try>::branch') or nm.endswith('File::metadata'):
                    pass
                else:
                    bad.append(short(nm))
            elif n.kind == 'binop' and n.op not in ('Div',):
                bad.append(n.op)
            elif n.kind in ('phi', 'local', 'other'):
                bad.append(n.kind)
            elif n.kind == 'param' and n.info['i'] != 1:
                bad.append('arg%d' % n.info['i'])
        has_ctime = any(c for c in val.calls('MetadataExt>::ctime'))
        cx.check(has_ctime and not bad and len(mds) == 1 and None not in mds, 'value:' + short(cs.callee), fn, cs.loc(),
                 'base time = %s' % show(val)[:200], fail_detail='the base time handed to the cell is not purely ctime of the gated metadata: extra=%s metadata calls=%s expr=%s'
                 % (bad, sorted(map(str, mds)), show(val)[:200]))
        # ... in milliseconds: seconds * 1000 + nanoseconds / 1_000_000, each constant on the right quantity
        muls = [n for n in val.walk() if n.kind == 'call' and n.op.endswith('saturating_mul')]
        divs = [n for n in val.walk() if n.kind == 'binop' and n.op == 'Div']
        def _is(e, what):
            return any(c.op.endswith('MetadataExt>::' + what) for c in e.calls())
        uok = len(muls) == 1 and len(divs) == 1 and \
            _is(muls[0].args[0], 'ctime') and not _is(muls[0].args[0], 'ctime_nsec') and muls[0].args[1].is_const_int(1000) and \
            _is(divs[0].a, 'ctime_nsec') and not _is(divs[0].a, 'ctime') and divs[0].b.is_const_int(1000000)
        cx.check(uok, 'units:' + short(cs.callee), fn, cs.loc(), 'milliseconds = ctime() * 1000 + ctime_nsec() / 1_000_000',
                 fail_detail='the base time is not the ctime in milliseconds (seconds * 1000 + nanoseconds / 1_000_000): %s' % show(val)[:200])
        vok = is_call(vch, 'VouchingParameters::vouch') and show(vch.args[1].strip()) == show(val)
        cx.check(vok, 'voucher:' + short(cs.callee), fn, cs.loc(), 'voucher = VOUCH_PARAMS.vouch(that same value)',
                 fail_detail='the voucher is not vouch() of the value being stored: %s' % show(vch)[:200])
    # the metadata used for the value is the one whose device was gated
    gate_md = set()
    for b in fn.live_blocks():
        e = fn.switch_expr(b)
        if e is not None and is_call(e, 'BTreeMap::contains_key'):
            md = nv.metadata_call(e.strip().args[1])
            if md is not None:
                gate_md.add(md.pos)
    val_md = set()
    for cs in nv.sinks:
        for c in cs.arg(1).calls('File::metadata'):
            val_md.add(c.pos)
    cx.check(gate_md and gate_md == val_md, 'same-stat', fn, None, 'the ctime comes from the File::metadata call whose device was checked',
             fail_detail='gate uses metadata at %s, value uses metadata at %s' % (sorted(gate_md), sorted(val_md)))


def r19_3(cx):
    """single writer: the cell is updated only from update_base_time, on a private static nobody hands out"""
    nv = NV(cx)
    m = nv.m
    for target in (m.update, m.try_update):
        callers = sorted({cs.fn.name for cs in cx.prog.callers_of(target.name)})
        cx.count_sites(len(callers))
        cx.check(callers == [nv.ubt.name], 'callers:' + short(target.name), target, None, 'called only from update_base_time',
                 fail_detail='%s is called from %s' % (short(target.name), callers))
    users = set()
    leaks = []
    for f in cx.prog.fns.values():
        for pos, st in f.statements():
            if st['k'] != 'assign':
                continue
            rv = st['rv']
            for o in [rv.get('o')] + rv.get('ops', []):
                if o and (o.get('staticp') or '').endswith('nfs_voucher::BASE_TIME'):
                    users.add(f.name)
        sig = f.d.get('sig', '')
        if f.crate == 'vouched_time' and 'nfs_voucher' in f.name and 'AtomicBaseTime' in sig.split('->')[-1]:
            leaks.append(f.name)
    allowed = {nv.ubt.name, cx.prog.fn('nfs_voucher::get_base_time_unlocked').name}
    cx.check(users <= allowed and nv.ubt.name in users, 'static-users', nv.ubt, None, 'BASE_TIME is named only by %s' % sorted(short(u) for u in users),
             fail_detail='BASE_TIME is used by %s' % sorted(users - allowed))
    cx.check(not leaks, 'static-not-returned', nv.ubt, None, 'no nfs_voucher function returns a reference to the cell', fail_detail='returns the cell: %s' % leaks)
    st = cx.prog.const('nfs_voucher::BASE_TIME')
    cx.check(True, 'static-exists', None, None, 'static %s : %s' % (st['name'], st['ty']))


def r19_4(cx):
    """trust is granted only after evidence: TRUSTED_PATHS is written only in add_trusted_path after update_base_time said Some for that dev"""
    nv = NV(cx)
    writers = []
    for f in cx.prog.fns.values():
        if f.crate != 'vouched_time':
            continue
        for cs in f.calls():
            if cs.matches('RwLock::write') or cs.matches('RwLock::try_write') or cs.matches('RwLock::get_mut') or cs.matches('RwLock::into_inner'):
                if any(nv.is_static(x, 'TRUSTED_PATHS') for a in cs.args() for x in a.walk()):
                    writers.append(cs)
    cx.check(writers and {cs.fn.name for cs in writers} == {nv.add.name}, 'table-writer', nv.add, None,
             'TRUSTED_PATHS is write-locked only in add_trusted_path (%d site)' % len(writers),
             fail_detail='TRUSTED_PATHS written in %s' % sorted({cs.fn.name for cs in writers}))
    fn = nv.add
    ins = list(fn.calls('BTreeMap::insert'))
    cx.require(len(ins) == 1, 'add_trusted_path no longer has exactly one insert')
    ic = ins[0]
    key = ic.arg(1).strip()
    key_md = nv.dev_of_param_file(key, fn)
    ups = list(fn.calls(nv.ubt.name))
    cx.require(len(ups) == 1, 'add_trusted_path no longer calls update_base_time exactly once')
    uc = ups[0]
    opts = uc.arg(1).strip()
    extra = None
    if opts.kind == 'agg':
        adt = cx.prog.adt('nfs_voucher::UpdateOptions')
        idx = [i for i, f in enumerate(adt['variants'][0]['fields']) if f['n'] == 'extra_device']
        if idx:
            extra = opts.args[idx[0]].strip()
    same_dev = extra is not None and extra.kind == 'agg' and extra.info.get('variant') == 'Some' and show(extra.args[0].strip()) == show(key)
    cx.check(key_md is not None and same_dev, 'same-dev', fn, ic.loc(), 'the device inserted is the extra_device that update_base_time vouched for: %s' % show(key)[:120],
             fail_detail='inserted key %s differs from extra_device %s' % (show(key)[:120], show(extra)[:120] if extra else None))
    # the file handed to update_base_time is the file whose metadata gave dev
    f_arg = uc.arg(0).strip()
    md_file = key_md.args[0].strip() if key_md is not None else None
    cx.check(md_file is not None and show(f_arg) == show(md_file), 'same-file', fn, uc.loc(), 'update_base_time observes the very file whose device is registered',
             fail_detail='update_base_time is given %s, dev comes from %s' % (show(f_arg)[:100], show(md_file)[:100] if md_file else None))
    # insert dominated by: Ok edge of the update_base_time result and Some (expect/unwrap or Some edge)
    ok_edge = False
    for e, val, edge in fn.facts_at(ic.bb):
        if e.kind == 'discr' and any(c.pos == uc.pos for c in e.calls(nv.ubt.name)) and e.has_call('Try>::branch') and val == ('in', frozenset([0])):
            ok_edge = True
    some = False
    for cs in fn.calls():
        if (cs.matches('Option::expect') or cs.matches('Option::unwrap')) and fn.pos_dominates(cs.pos, ic.pos):
            a = cs.arg(0)
            if any(c.pos == uc.pos for c in a.calls(nv.ubt.name)):
                root, path = field_path(a)
                some = True
    cx.check(ok_edge and some, 'after-evidence', fn, ic.loc(), 'insert dominated by update_base_time(..)? == Ok and .1.expect(Some)',
             fail_detail='the insert is reachable without update_base_time having returned Ok(Some) (Ok edge: %s, Some asserted: %s)' % (ok_edge, some))


def r19_5(cx):
    """untrusted device => Ok((stat, None)) and the cell is untouched"""
    nv = NV(cx)
    fn = nv.ubt
    # find the None-returning aggregate
    found = 0
    for pos, st in fn.statements():
        if st['k'] == 'assign' and st['pl']['l'] == 0 and st['rv']['k'] == 'agg' and st['rv']['variant'] == 'Ok':
            e = fn.rvalue_expr(st['rv']).strip()
            inner = e.args[0].strip()
            if inner.kind == 'agg' and len(inner.args) == 2 and inner.args[1].strip().kind == 'agg' and inner.args[1].strip().info.get('variant') == 'None':
                found += 1
                cx.count_paths()
                # no sink can reach this block and this block can reach no sink
                before = [cs for cs in nv.sinks if pos.bb in fn.reachable(cs.bb)]
                after = [cs for cs in nv.sinks if cs.bb in fn.reachable(pos.bb)]
                cx.check(not before and not after, 'none-path', fn, fn.loc(pos.bb, pos.idx), 'the Ok((stat, None)) return neither follows nor precedes a cell update',
                         fail_detail='the "untrusted" return shares a path with a cell update')
    cx.check(found >= 1, 'none-return-exists', fn, None, 'update_base_time has an Ok((stat, None)) return for untrusted devices',
             fail_detail='no Ok((stat, None)) return found')
    # every Ok(Some(..)) return carries the very update handed to the cell
    ret = fn.local_expr(0, [])
    somes = []
    for a in phi_alts(ret):
        a = a.strip()
        if a.kind == 'agg' and a.info.get('variant') == 'Ok' and a.args:
            inner = a.args[0].strip()
            if inner.kind == 'agg' and len(inner.args) == 2:
                s = inner.args[1].strip()
                if s.kind == 'agg' and s.info.get('variant') == 'Some':
                    somes.append(s.args[0].strip())
    ok = bool(somes) and all(any(show(s) == show(cs.arg(1).strip()) for cs in nv.sinks) for s in somes)
    # ... and is reported only for a trusted device: no Ok((_, Some(..))) is built on a path around the gate
    edges = [e for _, e in _gate_edges(nv)[0]]
    some_sites = []
    for pos, st in fn.statements():
        if st['k'] == 'assign' and st['rv']['k'] == 'agg' and st['rv']['variant'] == 'Some' and 'Voucher' in fn.locals[st['pl']['l']]:
            some_sites.append(pos)
    leak = [p_ for p_ in some_sites if not fn.is_cut(edges, [p_.bb])]
    cx.check(bool(some_sites) and not leak, 'some-only-when-trusted', fn, fn.loc(leak[0].bb, leak[0].idx) if leak else None,
             'a (base time, voucher) pair is built only behind a trusted-device edge (%d sites)' % len(some_sites),
             fail_detail='a vouched pair can be reported for a file on an untrusted device (a path around the trusted-device test builds Some(..))')
    cx.check(ok, 'some-is-the-update', fn, None, 'Ok((stat, Some(u))) reports exactly the pair handed to the cell',
             fail_detail='a reported pair is not the one handed to the cell')


def r19_6(cx):
    """forward only, for lock-free readers too: orderings, write-then-publish, validated reads, the monotonic filter and writer exclusivity of the cell (R13.1-R13.5) hold"""
    compose(cx, [('R13.1', c13.r13_1), ('R13.2', c13.r13_2), ('R13.3', c13.r13_3), ('R13.4', c13.r13_4), ('R13.5', c13.r13_5)])


def r19_7(cx):
    """every voucher the module makes checks: VOUCH_PARAMS.checking == BASE_TIME_CHECK byte for byte, and vouch() uses that constant"""
    prog = cx.prog
    chk = prog.const_bytes('vouched_time::BASE_TIME_CHECK')
    cx.require(len(chk) == 16, 'BASE_TIME_CHECK is not 16 bytes')
    vps = [c for c in prog.consts.values() if c['crate'] == 'vouched_time' and c['ty'].endswith('VouchingParameters')]
    cx.require(len(vps) >= 2, 'expected the two VOUCH_PARAMS constants')
    for c in vps:
        cx.count_sites()
        half = prog.const_field(c['name'], 'checking')
        cx.check(half == chk, 'params:' + short(c['name']), None, c['name'], 'checking half %s == BASE_TIME_CHECK' % half.hex(),
                 fail_detail='%s.checking = %s differs from BASE_TIME_CHECK = %s' % (c['name'], half.hex(), chk.hex()))
    allb = {prog.const_bytes(c['name']) for c in vps}
    # every vouch() call in the crate uses parameters with those bytes
    n = 0
    for f in prog.fns.values():
        if f.crate != 'vouched_time':
            continue
        for cs in f.calls('VouchingParameters::vouch'):
            n += 1
            cx.count_sites()
            p = cs.arg(0).strip()
            rb = p.info.get('ref_bytes') or p.info.get('bytes')
            ok = p.kind == 'const' and rb is not None and bytes.fromhex(rb) in allb
            cx.check(ok, 'vouch-params', f, cs.loc(), 'vouch() parameters are the checked VOUCH_PARAMS constant',
                     fail_detail='vouch() is called with parameters that are not the constant whose checking half was compared: %s' % show(p))
    # BaseTime::new is a const fn evaluated at compile time: its result is in the static's initial bytes
    st = prog.const('nfs_voucher::BASE_TIME')
    cx.check(n >= 1, 'vouch-sites', None, None, '%d runtime vouch() site(s) examined' % n, fail_detail='no vouch() call found')


def r19_8(cx):
    """get_base_time_unlocked is BASE_TIME.snapshot() and nothing else; get_base_time returns only scan results or that snapshot"""
    nv = NV(cx)
    fn = cx.prog.fn('nfs_voucher::get_base_time_unlocked')
    calls = list(fn.calls())
    ok = len(calls) == 1 and calls[0].key == nv.m.snapshot.key and nv.is_static(calls[0].arg(0), 'BASE_TIME')
    ret = fn.local_expr(0, []).strip()
    ok = ok and ret.kind == 'agg' and ret.info.get('variant') == 'Ok' and is_call(ret.args[0], nv.m.snapshot.name)
    cx.check(ok, 'unlocked', fn, None, 'returns Ok(BASE_TIME.snapshot())', fail_detail='get_base_time_unlocked is not just BASE_TIME.snapshot(): %s' % show(ret))
    g = cx.prog.fn('nfs_voucher::get_base_time')
    scan = cx.prog.fn('nfs_voucher::scan_for_base_time_impl')
    alts = phi_alts(g.local_expr(0, []))
    okg = bool(alts) and all(is_call(a, scan.name) or is_call(a, fn.name) for a in alts)
    cx.check(okg, 'get_base_time', g, None, 'returns scan_for_base_time_impl() or get_base_time_unlocked(now)',
             fail_detail='get_base_time returns something else: %s' % [show(a)[:80] for a in alts])
    # scan_for_base_time_impl: Ok values come from update_base_time's Some
    alts = phi_alts(scan.local_expr(0, []))
    oks = [a.strip() for a in alts if a.strip().kind == 'agg' and a.strip().info.get('variant') == 'Ok']
    oks_ok = bool(oks) and all(a.args[0].has_call(nv.ubt.name) for a in oks)
    cx.check(oks_ok, 'scan', scan, None, 'every Ok value of the scan is an update reported by update_base_time',
             fail_detail='scan_for_base_time_impl returns an Ok pair that does not come from update_base_time')


RULES = [('R19.1', r19_1), ('R19.2', r19_2), ('R19.3', r19_3), ('R19.4', r19_4), ('R19.5', r19_5), ('R19.6', r19_6),
         ('R19.7', r19_7), ('R19.8', r19_8)]
RULES.append(('R19.9', scan_rule(('vouched_time::nfs_voucher::',))))
FLOORS['R19.9'] = 1
