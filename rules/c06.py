"""C06 — StreamReader: the standard judge, record gating, per-record reset, offsets; refill progress shared with C08."""
from .util import *  # noqa: F401,F403
from . import c08, c07, c17
from engine.woodlint.db import Pos, as_relation, show

PROPERTY = 'C06'

EXPLANATION = """
Static analysis of hcobs::stream_reader::StreamReader (MIR).  Decided: (R6.1) the standard judge returns Stop
exactly on the edge range.start >= limit_offset (limit defaulting to u64::MAX), SkipRecord exactly on
total_size() > max_record_size, KeepGoing otherwise — operator and polarity checked, which the tests' limits
cannot distinguish; (R6.2) a record is returned only if it decoded to the end: the Ok(Some(..)) return is
dominated by the Ok edge of Decoder::finish and by state != SkipRecord; decode_anchored runs only in state
DecodeRecord and its error is branched on and moves the state to SkipRecord; the judge's SkipRecord verdict
moves the state to SkipRecord and Stop returns Ok(None); I/O errors from pump are propagated with `?`; the
returned iovec is the one finish() produced; (R6.3) every retry starts by clearing the iovec before building
the decoder from it (no bytes of a skipped record leak into the next one); (R6.4) last_sentinel_offset is the
sentinel's end offset minus STUFF_SEQUENCE.len(); a record's range starts at offset - len of its first Data
chunk and its end follows every Data chunk; (R6.5 = R8.1-R8.4) the chunker the reader stands on: the refill makes progress for every
io_block_size (defect F1: block sizes 0 and 1 silently lost every record), offsets, non-empty Data / honest
Eof and the split position (a sentinel hidden inside or split across Data chunks glues records together).
NOT decided: which records come out for a given byte stream (value-level), resynchronisation as a whole.
(R6.6 = R7.3, R7.4) the decoder the reader drives accepts exactly the format (header codec, validation guards
unbypassable); (R6.7 = R17.1-R17.3) the refill accumulates short reads, retries interrupted calls and does not
report a stale error at end of stream.
"""

ASSUMPTIONS = ['C08 (chunker) and C07 (decoder) clauses', 'Decoder::finish returns Ok only for complete input (C07 R7.4)']

FLOORS = {'R6.1': 4, 'R6.2': 7, 'R6.3': 1, 'R6.4': 3, 'R6.5': 1, 'R6.6': 1, 'R6.7': 1}

NRB = 'hcobs::stream_reader::StreamReader::next_record_bytes'


def variant_of(e):
    e = e.strip()
    if e.kind == 'agg':
        return e.info.get('variant')
    if e.kind == 'const':
        return e.info.get('variant')
    return None


def r6_1(cx):
    """standard judge: Stop iff range.start >= limit_offset, SkipRecord iff total_size > max_record_size"""
    prog = cx.prog
    mk = prog.fn('hcobs::stream_reader::StreamReader::chunk_judge')
    cls = prog.closures_of(mk)
    cx.require(len(cls) == 1, 'chunk_judge no longer returns exactly one closure')
    cl = cls[0]
    ret = mk.local_expr(0, []).strip()
    cx.require(ret.kind == 'agg' and ret.info.get('ak') == 'closure', 'chunk_judge does not return a closure literal')
    caps = [a.strip() for a in ret.args]
    lim_i = size_i = None
    for i, c in enumerate(caps):
        if is_call(c, 'Option::unwrap_or') and c.args[0].strip().kind == 'param' and c.args[1].strip().kind == 'const' \
                and c.args[1].strip().info.get('int') == 2**64 - 1:
            lim_i = i
        if c.kind == 'param' and c.info.get('ty') == 'usize':
            size_i = i
    cx.check(lim_i is not None, 'limit-default', mk, None, 'limit_offset = limit_offset.unwrap_or(u64::MAX)', fail_detail='captured limit is %s' % [show(c) for c in caps])
    cx.require(lim_i is not None and size_i is not None, 'cannot identify the captured limit and size')

    def cap(e, i):
        e = e.strip()
        return e.kind == 'proj' and e.op == 'field' and e.info.get('i') == i and e.a.strip().kind == 'param' and e.a.strip().info['i'] == 1
    sites = {}
    for pos, st in cl.statements():
        if st['k'] == 'assign' and st['pl']['l'] == 0 and st['rv']['k'] == 'agg' and st['rv']['name'].endswith('StreamAction'):
            sites[st['rv']['variant']] = pos
    for want in ('Stop', 'SkipRecord', 'KeepGoing'):
        cx.count_sites()
        if want not in sites:
            cx.fail('verdict:' + want, cl, None, 'the judge never returns %s' % want)
            continue
        rels = [as_relation((e, v)) for e, v, ed in cl.facts_at(sites[want].bb)]
        rels = [r for r in rels if r]
        stop_rel = [r for r in rels if r[0] == 'Ge' and field_path(r[1])[1][-1:] == ['start'] and cap(r[2], lim_i)]
        nostop_rel = [r for r in rels if r[0] == 'Lt' and field_path(r[1])[1][-1:] == ['start'] and cap(r[2], lim_i)]
        skip_rel = [r for r in rels if r[0] == 'Gt' and is_call(r[1], 'OwningIovec::total_size') and cap(r[2], size_i)]
        keep_rel = [r for r in rels if r[0] == 'Le' and is_call(r[1], 'OwningIovec::total_size') and cap(r[2], size_i)]
        if want == 'Stop':
            ok, form = bool(stop_rel) and len(rels) == 1, 'range.start >= limit_offset'
        elif want == 'SkipRecord':
            ok, form = bool(nostop_rel) and bool(skip_rel) and len(rels) == 2, 'range.start < limit_offset && total_size() > max_record_size'
        else:
            ok, form = bool(nostop_rel) and bool(keep_rel) and len(rels) == 2, 'range.start < limit_offset && total_size() <= max_record_size'
        cx.check(ok, 'verdict:' + want, cl, cl.loc(sites[want].bb), '%s exactly where %s' % (want, form),
                 fail_detail='%s is returned under %s, expected %s' % (want, [(r[0], show(r[1])[:40], show(r[2])[:30]) for r in rels], form))


def _state_eq(fn, e, val, variant):
    """fact `state == <variant>` (truth val) from State::eq(&state, &CONST)"""
    e = e.strip()
    if e.kind == 'call' and e.op.endswith('::eq') and len(e.args) == 2 and 'State' in e.op:
        for x in e.args:
            if variant_of(x) == variant:
                return val
    return None


def r6_2(cx):
    """a record is returned only if it decoded to the end; errors and verdicts move to SkipRecord; I/O errors propagate"""
    prog = cx.prog
    fn = prog.fn(NRB)
    somes = [pos for pos, st in fn.statements() if st['k'] == 'assign' and st['rv']['k'] == 'agg' and st['rv']['variant'] == 'Some'
             and fn.locals[st['pl']['l']].startswith('std::option::Option<(&mut')]
    cx.require(len(somes) == 1, 'next_record_bytes no longer has exactly one Some((iovec, range)) site (%d)' % len(somes))
    sp = somes[0]
    facts = fn.facts_at(sp.bb)
    fin = any(e.kind == 'discr' and is_call(e.a, 'hcobs::Decoder::finish') and v == ('in', frozenset([0])) for e, v, ed in facts)
    notskip = any(_state_eq(fn, e, v, 'SkipRecord') is False for e, v, ed in facts)
    cx.check(fin, 'finish-ok', fn, fn.loc(sp.bb), 'Ok(Some(..)) only on the Ok edge of Decoder::finish', fail_detail='a record can be returned without finish() having succeeded')
    cx.check(notskip, 'not-skipped', fn, fn.loc(sp.bb), 'Ok(Some(..)) only where state != SkipRecord', fail_detail='a record that was marked SkipRecord can be returned')
    # the iovec returned is the finish() result
    st_ = [(pos, fn.rvalue_expr(rv)) for pos, pl, rv in fn.stores() if len(pl['p']) == 2 and pl['p'][1].get('n') == 'iovec' and rv is not None and fn.pos_dominates(pos, sp)]
    okv = any(v.strip().kind == 'proj' and v.has_call('hcobs::Decoder::finish') and len(list(v.calls())) <= 3 for p, v in st_)
    cx.check(okv, 'returns-finished-iovec', fn, fn.loc(sp.bb), 'self.iovec := finish()? before it is handed out', fail_detail='the returned iovec is not the result of finish()')
    # decode only in DecodeRecord, error -> SkipRecord
    dec = list(fn.calls('hcobs::Decoder::decode_anchored'))
    cx.require(len(dec) == 1, 'next_record_bytes no longer calls decode_anchored exactly once')
    d = dec[0]
    in_dec = any(_state_eq(fn, e, v, 'DecodeRecord') is True for e, v, ed in fn.facts_at(d.bb))
    cx.check(in_dec, 'decode-only-in-DecodeRecord', fn, d.loc(), 'decode_anchored only where state == DecodeRecord',
             fail_detail='bytes of a skipped record (or before the first sentinel handling) can be fed to the decoder')
    err_ok = False
    for b in sorted(fn.live_blocks()):
        be = fn.bool_edges(b)
        e = fn.switch_expr(b)
        if be and e is not None and is_call(e, 'Result::is_err') and any(c.pos == d.pos for c in e.calls()):
            t = be[1]
            # on the true edge, before the paths merge, state := SkipRecord
            for pos, st in fn.statements():
                if st['k'] == 'assign' and st['rv']['k'] == 'agg' and st['rv']['variant'] == 'SkipRecord' and pos.bb in fn.reachable(t, cut_blocks=[b]) \
                        and pos.bb != be[0] and pos.bb not in fn.reachable(be[0], cut_blocks=[b]):
                    err_ok = True
    cx.check(err_ok, 'decode-error-skips', fn, d.loc(), 'decode_anchored(..).is_err() is branched on and sets state := SkipRecord',
             fail_detail='a decode error does not move the record to SkipRecord')
    # judge verdicts
    jd = [b for b in fn.live_blocks() if fn.term(b)['k'] == 'switch' and fn.switch_expr(b).kind == 'discr' and is_call(fn.switch_expr(b).a, 'FnMut::call_mut')]
    cx.require(len(jd) == 1, 'cannot find the switch on the judge verdict')
    jb = jd[0]
    adt = prog.adt('stream_reader::StreamAction')
    names = [v['name'] for v in adt['variants']]
    ev = fn.edge_values(jb)
    ok_skip = ok_stop = False
    for s, vals in ev.items():
        for v in vals:
            if v == 'otherwise' or v >= len(names):
                continue
            if names[v] == 'SkipRecord':
                blk = fn.blocks[s]['st']
                ok_skip = any(x['k'] == 'assign' and x['rv']['k'] == 'agg' and x['rv']['variant'] == 'SkipRecord' for x in blk)
            if names[v] == 'Stop':
                # returns Ok(None) without reaching finish or the Some site
                ok_stop = sp.bb not in fn.reachable(s) and any(x['k'] == 'assign' and x['rv']['k'] == 'agg' and x['rv']['variant'] == 'None' for x in fn.blocks[s]['st'])
    cx.check(ok_skip, 'verdict-skip', fn, fn.loc(jb), 'judge SkipRecord => state := SkipRecord', fail_detail='the SkipRecord verdict is ignored')
    cx.check(ok_stop, 'verdict-stop', fn, fn.loc(jb), 'judge Stop => return Ok(None)', fail_detail='the Stop verdict does not end the read')
    # I/O errors propagate
    prop = False
    for b in sorted(fn.live_blocks()):
        e = fn.switch_expr(b) if fn.term(b)['k'] == 'switch' else None
        if e is not None and e.kind == 'discr' and is_call(e.a, 'Try>::branch') and e.a.strip().args and is_call(e.a.strip().args[0], 'StreamChunker::pump'):
            for s, vals in fn.edge_values(b).items():
                if 1 in vals:
                    prop = any(cs.bb in fn.reachable(s) and 'from_residual' in cs.callee for cs in fn.calls()) and sp.bb not in fn.reachable(s)
    cx.check(prop, 'io-error-propagates', fn, None, 'pump(..)? : an I/O error is returned to the caller', fail_detail='an I/O error from pump is swallowed')


def r6_3(cx):
    """each retry clears the iovec before building the decoder from it"""
    fn = cx.prog.fn(NRB)
    news = list(fn.calls('hcobs::Decoder::new_from_iovec'))
    cx.require(len(news) == 1, 'expected one Decoder::new_from_iovec')
    n = news[0]
    clears = [cs for cs in fn.calls('OwningIovec::clear') if cs.arg(0).kind == 'ref' and is_param_field(cs.arg(0).a, 'iovec')]
    heads = [h for h in fn.loop_headers() if n.bb in fn.loop_blocks(h)]
    ok = False
    for c in clears:
        if fn.pos_dominates(c.pos, n.pos) and any(c.bb in fn.loop_blocks(h) for h in heads):
            ok = True
    src = n.arg(0).strip()
    ok = ok and is_call(src, 'OwningIovec::take') and is_param_field(src.args[0], 'iovec')
    cx.check(ok, 'clear-then-decode', fn, n.loc(), 'self.iovec.clear(); Decoder::new_from_iovec(self.iovec.take()) at the head of every retry',
             fail_detail='the decoder of a retry can start from an iovec that still holds bytes of the previous (skipped) record')


def r6_4(cx):
    """offsets: last_sentinel_offset = end - STUFF_SEQUENCE.len(); range.start = offset - first chunk len; range.end = offset"""
    prog = cx.prog
    fn = prog.fn(NRB)
    seq = prog.const_bytes('hcobs::STUFF_SEQUENCE')
    ls = [(pos, fn.rvalue_expr(rv).strip()) for pos, pl, rv in fn.stores() if len(pl['p']) == 2 and pl['p'][1].get('n') == 'last_sentinel_offset' and rv is not None]
    ok = len(ls) == 1
    if ok:
        v = ls[0][1]
        ok = v.kind == 'binop' and v.op == 'Sub' and v.a.strip().kind == 'proj' and v.a.has_call('StreamChunker::pump') and \
            ((is_call(v.b, 'len') and any(c.info.get('ref_bytes') == seq.hex() for c in v.b.consts())) or v.b.is_const_int(len(seq)))
    cx.check(ok, 'last-sentinel', fn, fn.loc(ls[0][0].bb, ls[0][0].idx) if ls else None, 'last_sentinel_offset := sentinel end - STUFF_SEQUENCE.len()',
             fail_detail='last_sentinel_offset is %s' % [show(v)[:120] for p, v in ls])
    # range start on the first data chunk
    rng = []
    for pos, st in fn.statements():
        if st['k'] == 'assign' and st['rv']['k'] == 'agg' and st['rv']['variant'] == 'Range' and fn.locals[st['pl']['l']].startswith('std::ops::Range<u64>'):
            rng.append((pos, fn.rvalue_expr(st['rv']).strip()))
    first = [(p, r) for p, r in rng if r.args[0].strip().kind == 'binop' and r.args[0].strip().op == 'Sub']
    okf = len(first) == 1
    if okf:
        s = first[0][1].args[0].strip()
        okf = s.a.has_call('StreamChunker::pump') and is_call(s.b, 'len') and s.b.has_call('AnchoredSlice::slice') and show(first[0][1].args[0].strip()) == show(first[0][1].args[1].strip())
        okf = okf and any(_state_eq(fn, e, v, 'SkipSentinel') is not None or (e.kind == 'discr' and v == ('in', frozenset([0]))) for e, v, ed in fn.facts_at(first[0][0].bb))
    cx.check(okf, 'range-start', fn, fn.loc(first[0][0].bb) if first else None, 'first Data chunk: range = (offset - len)..(offset - len)',
             fail_detail='the record range does not start at the first data chunk\'s start offset')
    ends = []
    for pos, st in fn.statements():
        if st['k'] == 'assign' and st['pl']['p'] and st['pl']['p'][-1]['k'] == 'field' and st['pl']['p'][-1]['n'] == 'end' and 'Range<u64>' in fn.locals[st['pl']['l']]:
            ends.append((pos, fn.rvalue_expr(st['rv']).strip()))
    oke = len(ends) == 1 and ends[0][1].kind == 'proj' and ends[0][1].has_call('StreamChunker::pump')
    cx.check(oke, 'range-end', fn, fn.loc(ends[0][0].bb) if ends else None, 'every Data chunk: range.end = chunk end offset', fail_detail='range.end is %s' % [show(v)[:80] for p, v in ends])


def r6_5(cx):
    """the chunker the reader stands on: refill progress (F1), offsets, non-empty Data / honest Eof, split position (R8.1-R8.4)"""
    compose(cx, [('R8.1', c08.r8_1), ('R8.2', c08.r8_2), ('R8.3', c08.r8_3), ('R8.4', c08.r8_4)])


def r6_6(cx):
    """the decoder the reader stands on accepts exactly the format: wire constants, production parameters, header codec and validation guards (R7.1-R7.4)"""
    compose(cx, [('R7.1', c07.r7_1), ('R7.2', c07.r7_2), ('R7.3', c07.r7_3), ('R7.4', c07.r7_4)])


def r6_7(cx):
    """the refill the reader stands on: short reads accumulate, interrupted calls retry, end of stream is not an error, the buffer is exactly the block asked for, no block size panics the allocator (R17.1-R17.3, R17.5, R17.7)"""
    compose(cx, [('R17.1', c17.r17_1), ('R17.2', c17.r17_2), ('R17.3', c17.r17_3), ('R17.5', c17.r17_5), ('R17.7', c17.r17_7)])


def r6_8(cx):
    """the record buffer is really reset between records: clear() resets every counter of the deque (R3.2)"""
    from . import c03
    compose(cx, [('R3.2', c03.r3_2)])


RULES = [('R6.1', r6_1), ('R6.2', r6_2), ('R6.3', r6_3), ('R6.4', r6_4), ('R6.5', r6_5), ('R6.6', r6_6), ('R6.7', r6_7), ('R6.8', r6_8)]
RULES.append(('R6.9', scan_rule(('hcobs::stream_reader::',))))
FLOORS['R6.9'] = 1
