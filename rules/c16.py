"""C16 — SortedDeque: tombstone discipline (cleanup after every end removal, erased never returned,
ends never tombstoned, ordered append).  Equality with a reference ordered map is NOT decided."""
from .util import *  # noqa: F401,F403
from engine.woodlint.db import Pos, as_relation, show

PROPERTY = 'C16'

EXPLANATION = """
Static analysis of sliding_deque::sorted_deque::SortedDeque (MIR).  Decided: (R16.1) in every method, on
every path on which SlidingDeque::pop_front / pop_back returned an element, the front / back cleanup
(recognised by effect: the method that advances past erased items, the method that pops erased items off
the back in a loop) runs before return; the back cleanup returns only on the edges `back() is None` or
`!is_erased(back)` and pops only on the erased edge; the front cleanup advances by the index of the first
non-erased item (or usize::MAX when there is none); (R16.2) find returns Some only on the false edge of
is_erased of the item it located, iter filters with !is_erased; (R16.3) remove marks an item erased only on
the false edges of `idx == 0`, `idx == len-1` and `is_erased(item)`, re-checks the mark, returns the copy
taken before marking, and removes end items physically through pop_first / pop_last only; (R16.4)
push_back_or_panic appends only when the item is not erased and either the deque is empty or
cmp(key(back), key(item)) == Less was asserted.  With C15's invariant these imply by induction that the
first and last physical items are never tombstones (the debug check_rep) and that erased items are never
observable.  NOT decided: that results equal those of a reference ordered map (value-level).
"""

ASSUMPTIONS = ['the Marker implementation is consistent (is_erased after mark_erased, cmp a total order)',
               'C15: SlidingDeque behaves as a deque (its own rules)']

FLOORS = {'R16.1': 6, 'R16.2': 3, 'R16.3': 6, 'R16.4': 3}

SD = 'sliding_deque::sorted_deque::SortedDeque'
SL = 'sliding_deque::sliding_deque::SlidingDeque'


class M:
    def __init__(self, cx):
        prog = cx.prog
        self.prog = prog
        self.fns = [f for f in method_fns(prog, SD) if f.kind != 'Closure']
        cx.require(len(self.fns) >= 12, 'fewer than 12 SortedDeque methods found')
        adv = [f for f in self.fns if any(True for _ in f.calls(SL + '::advance'))]
        cx.require(len(adv) == 1, 'expected exactly one SortedDeque method that advances the deque (front cleanup), found %s' % [f.name for f in adv])
        self.front_cleaner = adv[0]
        # back cleanup, by effect: the method whose pop_back of self.items is guarded by is_erased(back())
        cands = []
        for f in self.fns:
            for cs in f.calls(SL + '::pop_back'):
                for e, val, edge in f.facts_at(cs.bb):
                    x = e.strip()
                    if val is True and x.kind == 'call' and x.op.endswith('::is_erased') and len(x.args) == 2 and x.args[1].has_call(SL + '::back'):
                        if f not in cands:
                            cands.append(f)
        cx.require(len(cands) == 1, 'expected exactly one method popping erased items off the back (back cleanup), found %s' % [f.name for f in cands])
        self.back_cleaner = cands[0]

    def is_items(self, e):
        return is_param_field(e, 'items')

    def erased_of(self, e):
        """is_erased(marker, X): returns X expr"""
        e = e.strip()
        if e.kind == 'call' and e.op.endswith('::is_erased') and len(e.args) == 2:
            return e.args[1]
        return None


def some_edge_target(fn, cs):
    """Block entered when the Option returned by call `cs` is Some (through `?` or a direct match); None when
    the result is not branched on (then the obligation starts right after the call)."""
    for b in sorted(fn.live_blocks()):
        if fn.term(b)['k'] != 'switch':
            continue
        e = fn.switch_expr(b)
        if e.kind == 'call' and e.op.rsplit('::', 1)[-1] in ('is_some', 'is_none') and 'ption' in e.op and any(c.pos == cs.pos for c in e.calls()):
            # `if popped.is_some() { cleanup }`: the true (is_none: false) edge is the Some edge
            be = fn.bool_edges(b)
            if be is not None:
                return b, (be[1] if e.op.endswith('is_some') else be[0])
        if e.kind != 'discr':
            continue
        if not any(c.pos == cs.pos for c in e.calls()):
            continue
        via_try = e.has_call('Try>::branch')
        want = 0 if via_try else 1
        for s, vals in fn.edge_values(b).items():
            if want in vals:
                return b, s
    return None


def r16_1(cx):
    """cleanup after every end removal; the cleanups themselves stop exactly at a live item"""
    m = M(cx)
    for fn in m.fns:
        for kind, cleaner in (('pop_front', m.front_cleaner), ('pop_back', m.back_cleaner)):
            if fn is cleaner:
                continue
            for cs in fn.calls(SL + '::' + kind):
                if not (cs.nargs() and cs.arg(0).kind == 'ref' and m.is_items(cs.arg(0).a)):
                    continue
                cx.count_sites()
                cleans = [c.pos for c in fn.calls(cleaner.name)]
                st = some_edge_target(fn, cs)
                if st is None:
                    w = fn.escapes(cs.pos, avoid=cleans)
                else:
                    w = fn.escapes(Pos(st[1], -1), avoid=cleans)
                cx.count_paths()
                cx.check(w is None, 'cleanup-after-' + kind, fn, cs.loc(), 'every path from the Some edge of %s to return runs %s' % (kind, short(cleaner.name)),
                         fail_detail='an element was removed from the %s and there is a path to return without %s: %s'
                         % ('front' if kind == 'pop_front' else 'back', short(cleaner.name), fn.show_path(w)))
    # back cleanup: stop edges
    f = m.back_cleaner
    stop = []
    pop_ok = None
    for b in sorted(f.live_blocks()):
        if f.term(b)['k'] != 'switch':
            continue
        e = f.switch_expr(b)
        if e.kind == 'discr' and is_call(e.a, SL + '::back'):
            for s, vals in f.edge_values(b).items():
                if 1 not in vals:
                    stop.append((b, s))
        x = m.erased_of(e)
        if x is not None and x.has_call(SL + '::back'):
            be = f.bool_edges(b)
            stop.append((b, be[0]))
            pops = [cs for cs in f.calls(SL + '::pop_back')]
            pop_ok = all(cs.bb in f.reachable(be[1], cut_blocks=[b]) and cs.bb not in f.reachable(be[0], cut_blocks=[b]) for cs in pops) and bool(pops)
        # the same two tests in one: back().is_some_and(|back| is_erased(back))
        if is_call(e, 'is_some_and') and is_call(e.strip().args[0], SL + '::back'):
            cl = closure_of(cx.prog, e.strip().args[1])
            r = cl.local_expr(0, []).strip() if cl is not None else None
            be = f.bool_edges(b)
            if r is not None and m_erased(r) and 2 in r.params() and be:
                stop += [(b, be[0]), (b, be[0])]
                pops = [cs for cs in f.calls(SL + '::pop_back')]
                pop_ok = all(cs.bb in f.reachable(be[1], cut_blocks=[b]) and cs.bb not in f.reachable(be[0], cut_blocks=[b]) for cs in pops) and bool(pops)
    cx.check(len(stop) == 2 and f.is_cut(stop, f.returns()), 'back-cleanup-stops', f, None,
             'returns only through `back() is None` or `!is_erased(back)` (edges %s)' % stop,
             fail_detail='the back cleanup can return while the last item is still a tombstone (stop edges found: %s)' % stop)
    cx.check(bool(pop_ok), 'back-cleanup-pops-erased', f, None, 'pop_back only on the is_erased(back) edge', fail_detail='the back cleanup pops a live item')
    # front cleanup: advance(count) with count = index of first non-erased
    f = m.front_cleaner
    adv = list(f.calls(SL + '::advance'))[0]
    alts = phi_alts(adv.arg(1))
    ok_alts = True
    idx_ok = False
    for a in alts:
        a = a.strip()
        if a.kind == 'const' and a.info.get('int') == 2**64 - 1:
            continue
        # must be the enumerate index, assigned on the !is_erased edge
        if a.has_call('Iterator>::next') and a.has_call('enumerate'):
            idx_ok = True
            continue
        ok_alts = False
    guard_ok = False
    # the iterator-chain spelling: items.iter().position(|item| !is_erased(item)).unwrap_or(usize::MAX)
    whole = adv.arg(1).strip()
    if is_call(whole, 'Option::unwrap_or') and whole.args[1].strip().kind == 'const' and whole.args[1].strip().info.get('int') == 2**64 - 1:
        pi = position_idiom(m.prog, whole.args[0])
        if pi is not None:
            it, cl, ret = pi
            x = m.erased_of(ret.a) if ret.kind == 'unop' and ret.op == 'Not' else None
            over_items = any(m.is_items(n) for n in it.walk()) and it.has_call('iter') and not any(
                c.op.rsplit('::', 1)[-1] in ('rev', 'skip', 'step_by', 'take', 'filter', 'skip_while', 'take_while', 'chain') for c in it.calls())
            if x is not None and x.strip().kind == 'param' and x.strip().info['i'] == 2 and over_items:
                ok_alts = idx_ok = guard_ok = True
    # ... or items.iter().enumerate().find(|(_, item)| !is_erased(item)).map_or(usize::MAX, |(idx, _)| idx)
    if is_call(whole, 'map_or') and len(whole.args) == 3 and whole.args[1].strip().kind == 'const' and whole.args[1].strip().info.get('int') == 2**64 - 1:
        fnd = whole.args[0].strip()
        pick = closure_of(m.prog, whole.args[2])
        if fnd.kind == 'call' and (fnd.op.endswith('Iterator>::find') or fnd.op.endswith('Iterator::find')) and len(fnd.args) == 2 and pick is not None:
            pred = closure_of(m.prog, fnd.args[1])
            it = fnd.args[0]
            over_items = any(m.is_items(n) for n in it.walk()) and it.has_call('iter') and it.has_call('enumerate') and not any(
                c.op.rsplit('::', 1)[-1] in ('rev', 'skip', 'step_by', 'take', 'filter', 'skip_while', 'take_while', 'chain') for c in it.calls())
            if pred is not None and over_items:
                ret = pred.local_expr(0, []).strip()
                x = m.erased_of(ret.a) if ret.kind == 'unop' and ret.op == 'Not' else None
                pr = pick.local_expr(0, []).strip()
                picks_index = pr.kind == 'proj' and pr.op == 'field' and pr.info.get('i') == 0 and pr.params() == {2}
                if x is not None and x.params() == {2} and any(n.kind == 'proj' and n.op == 'field' and n.info.get('i') == 1 for n in x.walk()) and picks_index:
                    ok_alts = idx_ok = guard_ok = True
    # ... the same once `map_or(MAX, |(idx, _)| idx)` has been rewritten into its match: MAX, or the index component of
    # what find(|(_, item)| !is_erased(item)) over items.iter().enumerate() returned
    if not (ok_alts and idx_ok and guard_ok):
        good = 0
        for a in alts:
            a = a.strip()
            if a.kind == 'const' and a.info.get('int') == 2**64 - 1:
                continue
            fc = [c for c in a.calls() if c.op.endswith('Iterator>::find') or c.op.endswith('Iterator::find')]
            if len(fc) != 1 or len(fc[0].args) != 2 or a.kind != 'proj':
                good = -99
                continue
            it, pred = fc[0].args[0], closure_of(m.prog, fc[0].args[1])
            over_items = any(m.is_items(n) for n in it.walk()) and it.has_call('iter') and it.has_call('enumerate') and not any(
                c.op.rsplit('::', 1)[-1] in ('rev', 'skip', 'step_by', 'take', 'filter', 'skip_while', 'take_while', 'chain') for c in it.calls())
            root, path = field_path(a)
            if pred is None or not over_items or path[-1:] != ['0']:
                good = -99
                continue
            ret = pred.local_expr(0, []).strip()
            x = m.erased_of(ret.a) if ret.kind == 'unop' and ret.op == 'Not' else None
            if x is not None and x.params() == {2} and any(n.kind == 'proj' and n.op == 'field' and n.info.get('i') == 1 for n in x.walk()):
                good += 1
            else:
                good = -99
        if good >= 1:
            ok_alts = idx_ok = guard_ok = True
    for pos, st in f.statements():
        if st['k'] == 'assign' and st['rv']['k'] == 'use':
            v = f.rvalue_expr(st['rv']).strip()
            if v.has_call('Iterator>::next') and v.kind == 'proj' and f.locals[st['pl']['l']] == 'usize':
                # is this the store into the advance argument chain? check facts
                for e, val, edge in f.facts_at(pos.bb):
                    x = m.erased_of(e)
                    if x is not None and val is False and x.has_call('Iterator>::next'):
                        # ... and the scan stops there (the *first* live item): no way back to the next() call
                        nxt = [c.bb for c in f.calls('Iterator>::next')]
                        if not any(b in f.reachable(pos.bb) - {pos.bb} or (b == pos.bb) for b in nxt):
                            guard_ok = True
    cx.check(ok_alts and idx_ok and guard_ok, 'front-cleanup-count', f, adv.loc(), 'advance(index of the first item with !is_erased, else usize::MAX)',
             fail_detail='the front cleanup does not advance by the index of the first live item: %s (guarded=%s)' % ([show(a)[:60] for a in alts], guard_ok))
    # (self.items, or the deque parameter of a cleanup written as an associated function that every caller hands self.items)
    cx.check((adv.arg(0).kind == 'ref' and m.is_items(adv.arg(0).a)) or _items_param(cx, f, adv.arg(0), m), 'front-cleanup-target', f, adv.loc(), 'advances self.items')


def r16_2(cx):
    """erased items are never returned: find's Some on the !is_erased edge; iter filters !is_erased"""
    m = M(cx)
    find = cx.prog.fn(SD + '::find')
    n = 0
    for pos, st in find.statements():
        if st['k'] == 'assign' and st['pl']['l'] == 0 and st['rv']['k'] == 'agg' and st['rv']['variant'] == 'Some':
            n += 1
            item = find.operand_expr(st['rv']['ops'][0])
            ok = False
            for e, val, edge in find.facts_at(pos.bb):
                x = m.erased_of(e)
                if x is not None and val is False and show(x.strip()) == show(item.strip()):
                    ok = True
            cx.check(ok, 'find-some', find, find.loc(pos.bb, pos.idx), 'Some(item) only where is_erased(item) is false',
                     fail_detail='find can return an item without having tested is_erased on it')
    # ... or `Some(item)` built first and passed on only where the filter predicate held (Option::filter rewritten
    # into its match by the normalisation): the return place is assigned that Option on the !is_erased edge
    for pos, st in find.statements():
        if st['k'] == 'assign' and st['pl']['l'] == 0 and not st['pl']['p'] and st['rv']['k'] == 'use' and st['rv']['o']['k'] in ('copy', 'move'):
            v = find.operand_expr(st['rv']['o']).strip()
            if v.kind == 'agg' and v.info.get('variant') == 'Some' and len(v.args) == 1:
                n += 1
                item = v.args[0]
                ok = any((x := m.erased_of(e)) is not None and val is False and show(x.strip()) == show(item.strip()) for e, val, edge in find.facts_at(pos.bb))
                cx.check(ok, 'find-some', find, find.loc(pos.bb, pos.idx), 'Some(item) is passed on only where is_erased(item) is false',
                         fail_detail='find can return an item without having tested is_erased on it')
    # ... or the candidate goes through Option::filter(|item| !is_erased(item)) on its way out
    for c in find.calls('filter'):
        if 'ption' in c.callee and c.result_local() == 0:
            n += 1
            cl = closure_of(cx.prog, c.arg(1))
            r = cl.local_expr(0, []).strip() if cl is not None else None
            cx.check(r is not None and r.kind == 'unop' and r.op == 'Not' and m_erased(r.a), 'find-some', find, c.loc(),
                     'the candidate is returned through Option::filter(|item| !is_erased(item))',
                     fail_detail='find can return an item without having tested is_erased on it')
    cx.check(n >= 1, 'find-has-some', find, None, '%d Some site(s)' % n, fail_detail='no Some site in find')
    # the lookup both find and remove rely on is one binary search over all the items, by key
    fi = cx.prog.fn(SD + '::find_index')
    r = fi.local_expr(0, []).strip()
    # `.ok()` or the same thing spelled as a match: the index returned is the Ok payload of that one search, untouched
    bss = list(r.calls('binary_search_by'))
    bs = bss[0] if len(bss) == 1 else None
    # (the deque searched is self.items, or a parameter of a lookup helper that takes the items explicitly)
    okb = bs is not None and (any(m.is_items(n) for n in bs.args[0].walk()) or _items_param(cx, fi, bs.args[0], m)) \
        and not any(c.op.rsplit('::', 1)[-1] in ('index', 'split_at', 'get', 'rev', 'skip', 'take') for c in bs.args[0].calls()) \
        and not any(n.kind == 'binop' for n in r.walk()) and all(c.op.rsplit('::', 1)[-1] in ('ok', 'binary_search_by', 'deref', 'branch') for c in r.calls()) \
        and len(list(fi.calls())) <= 3
    cl = closure_of(cx.prog, bs.args[1]) if okb else None
    if okb and cl is not None:
        cr = cl.local_expr(0, []).strip()
        okb = cr.kind == 'call' and cr.op.endswith('::cmp') and cr.args[1].has_call('extract_key') and 2 in cr.args[1].params()
    cx.check(bool(okb) and cl is not None, 'find_index', fi, None, 'find_index = items.binary_search_by(|item| cmp(key(item), key)).ok()',
             fail_detail='find_index is %s: an index that is not the position in the whole deque makes find / remove act on another item' % show(r)[:140])
    it = cx.prog.fn(SD + '::iter')
    cls = cx.prog.closures_of(it)
    ok = False
    for c in cls:
        r = c.local_expr(0, []).strip()
        if r.kind == 'unop' and r.op == 'Not' and m_erased(r.a):
            ok = True
    filt = [cs for cs in it.calls('filter')]
    cx.check(ok and bool(filt), 'iter-filter', it, None, 'iter() = items.iter().filter(|x| !is_erased(x))', fail_detail='iter does not filter erased items')


def _items_param(cx, fi, recv, m):
    """find_index as an associated function taking the deque explicitly: the receiver of the search is a SlidingDeque
    parameter as it stands, and every caller passes self.items for it."""
    ps = recv.params()
    if len(ps) != 1 or any(n.kind == 'proj' and n.op == 'field' for n in recv.walk()):
        return False
    p = next(iter(ps))
    if 'SlidingDeque<' not in fi.locals[p] or 'SortedDeque<' in fi.locals[p]:
        return False
    sites = [c for f in cx.prog.fns.values() for c in f.calls(fi)]
    return bool(sites) and all(any(m.is_items(n) for n in c.arg(p - 1).walk()) for c in sites)


def m_erased(e):
    e = e.strip()
    return e.kind == 'call' and e.op.endswith('::is_erased')


def r16_3(cx):
    """ends are never tombstoned: mark_erased only for a live middle item; end items go through pop_first/pop_last"""
    m = M(cx)
    fn = cx.prog.fn(SD + '::remove')
    # `len() - 1` (the index of the last item) is computed only once an item has been found, i.e. the deque is
    # not empty: hoisted above the lookup it underflows on an empty deque
    subs = [pos for pos, st in fn.statements() if st['k'] == 'assign' and st['rv']['k'] == 'binop' and st['rv']['op'].startswith('Sub')
            and fn.rvalue_expr(st['rv']).b.is_const_int(1) and is_call(fn.rvalue_expr(st['rv']).a, 'len')]
    for k, pos in enumerate(subs):
        found = any((o := some_of(e, v)) is not None and o.has_call('find_index') for e, v, ed in fn.facts_at(pos.bb))
        cx.check(found, 'last-index-after-found#%d' % k, fn, fn.loc(pos.bb, pos.idx), 'len() - 1 only where find_index returned Some (the deque is not empty)',
                 fail_detail='len() - 1 is computed before an item is known to exist: remove() on an empty deque underflows (panics in checked builds)')
    if not subs:
        cx.ok('last-index-after-found#0', fn, None, 'no len() - 1 is computed (the last index is tested as idx + 1 == len): nothing to underflow')
    marks = list(fn.calls('mark_erased'))
    cx.require(len(marks) == 1, 'remove no longer has exactly one mark_erased call')
    mk = marks[0]
    facts = fn.facts_at(mk.bb)
    not_first = not_last = live = False
    for e, val, edge in facts:
        rel = as_relation((e, val))
        # (idx != 0 or idx > 0; idx != len - 1 or idx < len - 1: the index found is below len either way)
        if rel and str(rel[0]) in ('Ne', 'Gt', 'Lt'):
            op, a, b = rel
            a, b = a.strip(), b.strip()
            for x, y, o in ((a, b, op), (b, a, {'Gt': 'Lt', 'Lt': 'Gt', 'Ne': 'Ne'}[op])):
                if x.has_call('find_index') and y.is_const_int(0) and o in ('Ne', 'Gt'):
                    not_first = True
                if x.has_call('find_index') and y.kind == 'binop' and y.op == 'Sub' and y.b.is_const_int(1) and is_call(y.a, 'len') \
                        and rooted_in_param_field(y.a, 'items') and o in ('Ne', 'Lt'):
                    not_last = True
                # the same test spelled idx + 1 != len
                if x.kind == 'binop' and x.op == 'Add' and x.a.has_call('find_index') and x.b.is_const_int(1) and is_call(y, 'len') \
                        and rooted_in_param_field(y, 'items') and o in ('Ne', 'Lt'):
                    not_last = True
        x = m.erased_of(e)
        if x is not None and val is False:
            live = True
    cx.check(not_first, 'not-first', fn, mk.loc(), 'mark_erased only where idx != 0', fail_detail='the first physical item can be tombstoned')
    cx.check(not_last, 'not-last', fn, mk.loc(), 'mark_erased only where idx != len-1', fail_detail='the last physical item can be tombstoned')
    cx.check(live, 'not-already-erased', fn, mk.loc(), 'mark_erased only where is_erased(item) was false', fail_detail='an erased item can be "removed" again')
    # len is read before anything is removed: the len call dominates find_index
    # re-check + return copy
    somes = [pos for pos, st in fn.statements() if st['k'] == 'assign' and st['pl']['l'] == 0 and st['rv']['k'] == 'agg' and st['rv']['variant'] == 'Some']
    ok = False
    for pos in somes:
        after = any(val is True and m.erased_of(e) is not None for e, val, edge in fn.facts_at(pos.bb))
        st = fn.blocks[pos.bb]['st'][pos.idx]
        v = fn.operand_expr(st['rv']['ops'][0]).strip()
        copied_before = v.pos is not None and fn.pos_dominates(v.pos, mk.pos)
        # (the re-check `assert!(is_erased(item))` after marking is the marker's own contract: welcome, not required)
        if copied_before and fn.pos_dominates(mk.pos, pos):
            ok = True
    cx.check(ok, 'return-copy', fn, None, 'returns the copy taken before marking',
             fail_detail='remove does not return a pre-mark copy behind the is_erased re-check')
    pf = list(fn.calls(SD + '::pop_first'))
    pl = list(fn.calls(SD + '::pop_last'))
    direct = [cs for cs in fn.calls() if cs.matches(SL + '::pop_front') or cs.matches(SL + '::pop_back') or cs.matches(SL + '::advance')]
    cx.check(len(pf) == 1 and len(pl) == 1 and not direct, 'ends-through-pop', fn, None, 'end items are removed through pop_first / pop_last (which clean up)',
             fail_detail='remove touches the deque ends directly: %s' % direct)


def r16_4(cx):
    """append-only, strictly increasing: push only if !is_erased(item) and (empty or cmp(key(back), key(item)) == Less)"""
    m = M(cx)
    fn = cx.prog.fn(SD + '::push_back_or_panic')
    pushes = list(fn.calls(SL + '::push_back'))
    cx.require(len(pushes) == 1, 'push_back_or_panic no longer has exactly one push_back')
    p = pushes[0]
    live = False
    for e, val, edge in fn.facts_at(p.bb):
        x = m.erased_of(e)
        if x is not None and val is False and x.strip().kind == 'param':
            live = True
    cx.check(live, 'not-erased', fn, p.loc(), 'push only where is_erased(&item) is false', fail_detail='an erased item can be pushed')
    cut = []
    cmp_ok = False
    for b in sorted(fn.live_blocks()):
        if fn.term(b)['k'] != 'switch':
            continue
        e = fn.switch_expr(b)
        if e.kind == 'discr' and is_call(e.a, SL + '::back'):
            for s, vals in fn.edge_values(b).items():
                # (the `otherwise -> unreachable` arm of a two-armed match on the Option is not a way to the push)
                if 1 not in vals and fn.term(s)['k'] != 'unreachable':
                    cut.append((b, s))
        if is_call(e, 'PartialEq>::eq') or is_call(e, 'PartialEq::eq'):
            c = e.strip()
            lhs, rhs = c.args[0].strip(), c.args[1].strip()
            for x, y in ((lhs, rhs), (rhs, lhs)):
                if x.kind == 'call' and x.op.endswith('::cmp') and len(x.args) == 3:
                    k1, k2 = x.args[1].strip(), x.args[2].strip()
                    less = y.kind == 'const' and (y.info.get('variant') == 'Less' or y.info.get('ref_bytes') == 'ff')
                    if k1.kind == 'call' and k1.op.endswith('extract_key') and k1.args[1].has_call(SL + '::back') and \
                            k2.kind == 'call' and k2.op.endswith('extract_key') and k2.args[1].strip().kind == 'param' and less:
                        cmp_ok = True
                        cut.append((b, fn.bool_edges(b)[1]))
    cx.check(cmp_ok, 'ordered', fn, None, 'cmp(extract_key(back), extract_key(&item)) == Ordering::Less is tested',
             fail_detail='no comparison cmp(key(back), key(item)) == Less found before the push')
    cx.count_paths()
    cx.check(len(cut) == 2 and fn.is_cut(cut, [p.bb]), 'push-gated', fn, p.loc(), 'push reachable only through `back() is None` or the Less edge (%s)' % cut,
             fail_detail='push_back is reachable without the ordering assertion: %s' % fn.show_path(fn.path(0, [p.bb], cut_edges=cut)))


def r16_5(cx):
    """what the sorted deque stands on: the sliding deque underneath keeps its invariant and its containers delegate (R15.1-R15.7)"""
    from . import c15
    compose(cx, [('R15.1', c15.r15_1), ('R15.2', c15.r15_2), ('R15.3', c15.r15_3), ('R15.4', c15.r15_4), ('R15.5', c15.r15_5), ('R15.6', c15.r15_6), ('R15.7', c15.r15_7), ('R15.8', c15.r15_8)])


RULES = [('R16.1', r16_1), ('R16.2', r16_2), ('R16.3', r16_3), ('R16.4', r16_4), ('R16.5', r16_5)]
RULES.append(('R16.6', scan_rule(('sliding_deque::sorted_deque::',))))
FLOORS['R16.6'] = 1
