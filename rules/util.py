"""Small matching helpers shared by the rule modules."""
import collections
import re
from engine.woodlint.db import E, Unrecognised, name_matches, as_relation, flatten_bool, Pos, show, short  # noqa: F401


def is_param_field(e, field=None, param=1, _depth=0):
    """e is `(*argN).field` (through any refs/derefs/copies)."""
    e = e.strip()
    if e.kind == 'call' and len(e.args) in (1, 2) and (e.op.endswith('mem::take') or e.op.endswith('mem::replace')):
        # mem::take(&mut self.field) / mem::replace(&mut self.field, ..) evaluate to the field's value
        return is_param_field(e.args[0], field, param, _depth)
    if e.kind == 'phi' and field is not None and _depth < 3:
        # the field of a `mut self` taken by value is assigned in place: a later read is a merge of the parameter's
        # field and of values computed from it -- still "the current value of self.field"
        return all(is_param_field(a, field, param, _depth + 1) or any(is_param_field(n, field, param, 3) for n in a.walk()) for a in e.args) \
            and any(is_param_field(a, field, param, _depth + 1) for a in e.args)
    if e.kind != 'proj' or e.op != 'field':
        return False
    if field is not None and e.info.get('n') != field:
        return False
    base = e.a.strip()
    return base.kind == 'param' and (param is None or base.info['i'] == param)


def field_path(e):
    """For x.a.b.c through derefs/refs: (root expr, ['a','b','c'])."""
    names = []
    e = e.strip()
    while e.kind == 'proj' and e.op in ('field', 'downcast', 'index'):
        if e.op == 'field':
            names.append(e.info.get('n'))
        e = e.a.strip()
    return e, list(reversed(names))


def rooted_in_param_field(e, field, param=1):
    """Some node of e is (*argN).field"""
    return any(is_param_field(n, field, param) for n in e.walk())


def is_call(e, suffix):
    e = e.strip()
    if e.kind != 'call':
        return False
    if hasattr(suffix, 'key'):
        return e.info.get('key') == suffix.key
    return name_matches(e.op, suffix)


def call_arg(e, i):
    e = e.strip()
    return e.args[i]


def phi_alts(e):
    """Alternatives of a phi (flattened), or [e]."""
    e = e.strip()
    if e.kind == 'phi':
        out = []
        for a in e.args:
            out.extend(phi_alts(a))
        return out
    return [e]


def method_fns(prog, adt_name, crate=None, include_trait_impls=True, include_derived=False):
    """Functions of inherent impls (and optionally trait impls) of the ADT with this pretty name,
    plus the closures inside them."""
    out = []
    for f in prog.fns.values():
        if crate and f.crate != crate:
            continue
        n = f.name
        inh = n.startswith(adt_name + '::')
        tr = include_trait_impls and (n.startswith('<' + adt_name + ' as ') or n.startswith('<' + adt_name + '<')
                                      or n.startswith('<&' + adt_name) or n.startswith("<&'"))
        if n.startswith("<&'") or n.startswith('<&'):
            tr = include_trait_impls and (adt_name + '<' in n.split(' as ')[0] or n.split(' as ')[0].endswith(adt_name))
        if not (inh or tr):
            continue
        if f.d.get('derived') and not include_derived:
            continue
        out.append(f)
    return sorted(out, key=lambda f: f.name)


def const_of(e):
    e = e.strip()
    if e.kind == 'const':
        return e.info
    return None


def named_const(e, suffix):
    c = const_of(e)
    return bool(c and c.get('namedp') and name_matches(c['namedp'], suffix))


def int_or_const_len(prog, e):
    """the integer an expression denotes when it is a literal, or `CONST.len()` of a byte-array constant of the
    workspace (`STUFF_SEQUENCE.len()` for the literal 2), through integer casts; else None"""
    c = e.strip()
    if c.kind == 'const' and c.info.get('int') is not None:
        return c.info['int']
    if c.kind == 'call' and c.op.rsplit('::', 1)[-1] == 'len' and len(c.args) == 1:
        lit = c.args[0].strip()
        if lit.kind == 'agg' and lit.info.get('ak') == 'array':
            return len(lit.args)        # the length of an array literal
        for n in c.args[0].walk():
            if n.kind == 'const':
                if n.info.get('ref_bytes') is not None:
                    return len(n.info['ref_bytes']) // 2
                if n.info.get('namedp'):
                    try:
                        return len(prog.const_bytes(n.info['namedp']))
                    except Exception:
                        return None
    return None


def describe(e):
    return show(e)


def const_is(prog, e, name):
    """e is the named constant `name`, or a literal with the same value (a range pattern `NAME..` or a
    refactoring may spell the value either way; the value is what the property is about)."""
    if named_const(e, name.rsplit('::', 1)[-1]):
        return True
    c = const_of(e)
    if not c or c.get('int') is None:
        return False
    try:
        return int(c['int']) == prog.const_int(name)
    except Exception:
        return False


def commuted(e, op):
    """operand orders of a commutative binop node: [(a, b), (b, a)]; [] if e is not that op"""
    e = e.strip()
    if e.kind == 'binop' and e.op == op:
        return [(e.a.strip(), e.b.strip()), (e.b.strip(), e.a.strip())]
    return []


def closure_of(prog, e):
    """The Fn of a closure aggregate expression (through refs/copies), or None."""
    e = e.strip()
    if e.kind != 'agg' or e.info.get('ak') != 'closure':
        return None
    n = e.info.get('name')
    f = prog.fns.get(n)
    if f is None:
        c = prog.by_name.get(n) or []
        f = c[0] if len(c) == 1 else None
    return f


def position_idiom(prog, e):
    """e == <iter>.position(<closure>): (iter expr, closure Fn, the closure's returned expression) or None.
    `position` returns the index of the first element for which the closure is true, None at exhaustion --
    the iterator-chain spelling of `for (i, x) in iter.enumerate() { if p(x) { return Some(i) } } None`."""
    e = e.strip()
    if e.kind != 'call' or not (e.op.endswith('Iterator>::position') or e.op.endswith('Iterator::position')) or len(e.args) != 2:
        return None
    cl = closure_of(prog, e.args[1])
    if cl is None:
        return None
    return e.args[0], cl, cl.local_expr(0, []).strip()


def compose(cx, parts):
    """Evaluate rules of other modules as part of the current rule: [(rule id, function)].  Instances are
    prefixed with the borrowed rule id; a missing anchor is reported (fail closed) under the current rule."""
    import sys
    sub = cx.__class__(cx.prog, cx.profile, cx.prop)
    for part in parts:
        rid, f = part[0], part[1]
        sub.rule = rid
        before = len(sub.records)
        try:
            f(sub)
        except Unrecognised as e:
            sub.unrecognised('anchor', detail='rule cannot be evaluated on this tree: %s' % e)
        # the borrowed rule keeps the floor of the module it comes from
        floor = part[2] if len(part) > 2 else getattr(sys.modules.get(f.__module__), 'FLOORS', {}).get(rid, 1)
        got = len([r for r in sub.records[before:] if r.get('kind') != 'unrecognised'])
        if got < floor:
            sub.fail('floor', detail='rule matched %d instance(s), fewer than the %d confirmed by hand on the reference tree' % (got, floor), kind='unrecognised')
    for r in sub.records:
        r = dict(r)
        r['instance'] = r['rule'] + ':' + r['instance']
        r['rule'] = cx.rule
        cx.records.append(r)


_IMPLIES = {'Lt': {'Lt', 'Le', 'Ne'}, 'Le': {'Le'}, 'Gt': {'Gt', 'Ge', 'Ne'}, 'Ge': {'Ge'}, 'Eq': {'Eq', 'Le', 'Ge'}, 'Ne': {'Ne'}}
_SWAP = {'Lt': 'Gt', 'Gt': 'Lt', 'Le': 'Ge', 'Ge': 'Le', 'Eq': 'Eq', 'Ne': 'Ne'}


def boundary_checks(fn):
    """Assertions of fn whose two operands are also compared by a guard every path to the assertion has
    passed: [(block, (op, a, b), [guard ops in the assertion's orientation], implied?)].  `if a > b { return }
    ... assert!(a < b)` is two beliefs about the same pair that disagree at a == b: one of them is wrong."""
    out = []
    for b in sorted(fn.live_blocks()):
        be = fn.bool_edges(b)
        if be is None:
            continue
        for want, pan in ((True, be[0]), (False, be[1])):
            x, hops = pan, 0
            while fn.term(x)['k'] == 'goto' and hops < 3:
                x, hops = fn.term(x)['t'], hops + 1
            t = fn.term(x)
            if not (t['k'] == 'call' and t['t'] < 0 and 'panicking' in (t.get('calleep') or '')):
                continue
            r = as_relation((fn.switch_expr(b), want))
            if not r:
                continue
            op, a, c = r
            sa, sc = show(a.strip()), show(c.strip())
            same = []
            for e, v, ed in fn.facts_at(b):
                f = as_relation((e, v))
                if not f:
                    continue
                fo, fa, fc = f
                pair = (show(fa.strip()), show(fc.strip()))
                if pair == (sa, sc):
                    same.append(fo)
                elif pair == (sc, sa):
                    same.append(_SWAP[fo])
            if same:
                out.append((b, (op, a, c), same, any(op in _IMPLIES[f] for f in same)))
    return out


def some_of(e, v):
    """If the fact (e, v) says that an Option / Result is Some / Ok -- by a direct match or through `?` -- return the
    expression of that Option (else None)."""
    if e.kind != 'discr' or not isinstance(v, tuple) or e.a is None:
        return None
    inner = e.a.strip()
    if inner.kind == 'call' and inner.op.endswith('Try>::branch') and len(inner.args) == 1:
        if v == ('in', frozenset([0])) or v == ('not', frozenset([1])):
            return inner.args[0]
        return None
    if v == ('in', frozenset([1])) or v == ('not', frozenset([0])):
        return e.a
    return None


def lossless_casts(cx, fns, audited, consequence):
    """Every integer-to-integer cast in fns is lossless on every path (path evaluator, widening by type alone when
    the evaluator does not track the operand) or listed in `audited` (key: function|cast|ordinal in block order)."""
    from engine.woodlint.linear import PathEval, int_range
    prog = cx.prog
    for fn in sorted(fns, key=lambda f: f.name):
        casts = [pos for pos, st in fn.statements() if st['k'] == 'assign' and st['rv']['k'] == 'cast' and st['rv']['ck'] == 'IntToInt']
        if not casts:
            continue
        proved = {}
        if fn.is_acyclic():
            pe = PathEval(fn, {}, prog=prog)
            pe.run(lambda path, st: None)
            cx.count_paths(pe.paths)
            for ob in pe.obligations:
                if ob['kind'] == 'cast':
                    k = tuple(ob['pos'])
                    proved[k] = proved.get(k, True) and ob['ok']
        nunproven = {}
        for i, pos in enumerate(sorted(casts)):
            st = fn.blocks[pos.bb]['st'][pos.idx]
            o = st['rv']['o']
            dty = st['rv']['ty']
            inst = 'cast#%d:%s' % (i, short(fn.name))
            key = '%s|cast|%d' % (fn.name, i)
            ok = proved.get((pos.bb, pos.idx))
            sty = fn.locals[o['pl']['l']] if o['k'] in ('copy', 'move') and not o['pl']['p'] else (o.get('ty') or '')
            rs, rd = int_range(sty), int_range(dty)
            if not ok and rs and rd and rd[0] <= rs[0] and rs[1] <= rd[1]:
                ok = True    # the target type holds every value of the source type
            cx.count_sites()
            if ok:
                cx.ok(inst, fn, fn.loc(pos.bb, pos.idx), '`as %s` is lossless on every path' % dty)
            elif (sk := _sigkey(fn, sty, dty, nunproven)) and (key in audited or sk in audited):
                cx.ok(inst + ':audited', fn, fn.loc(pos.bb, pos.idx), 'NOT DECIDED (audited): ' + (audited.get(key) or audited[sk]))
            else:
                cx.fail(inst, fn, fn.loc(pos.bb, pos.idx), '`%s as %s` can drop high bits: the value is not bounded by the target type on every path (%s)'
                        % (show(fn.operand_expr(o))[:80], dty, consequence))


def _sigkey(fn, sty, dty, counters, peek=False):
    """second key of an audited cast, stable under edits that add or remove *other* casts in the function: the k-th cast
    of this source and target type that the evaluator could not prove (function|cast|usize->u32|unproven#k)"""
    sig = '%s->%s' % (sty, dty)
    k = counters.get(sig, 0)
    if peek:
        k -= 1
    else:
        counters[sig] = k + 1
    return '%s|cast|%s|unproven#%d' % (fn.name, sig, k)


def field_or_accessor(prog, e, field, param=1):
    """e reads self.<field>: directly, or through a local accessor whose whole body returns that field"""
    if any(is_param_field(n, field, param) for n in e.walk()):
        return True
    for c in e.walk():
        if c.kind == 'call' and c.info.get('key') in prog.fns and len(c.args) == 1 and c.args[0].strip().kind == 'param' and c.args[0].strip().info['i'] == param:
            g = prog.fns[c.info['key']]
            if g.argc == 1 and g.is_acyclic() and len(list(g.calls())) == 0 and any(is_param_field(n, field, 1) for n in g.local_expr(0, []).walk()):
                return True
    return False


# ---- scans run over everything they are given -------------------------------------------------------------------------
# Iterator adaptors that make a loop see fewer elements than its source yields, or see them in another order.  The library
# uses three of them (counted on the reference tree); a *new* one in a function a property stands on -- `.take(4096)` on the
# tag section of the encoder, `.enumerate().take(64)` on the tombstone scan of the sorted deque -- passes every test written
# with a handful of elements and breaks the property from that many elements on.
_DROPPING = re.compile(r'Iterator(?:<[^>]*>)?>?::(take|skip|step_by|take_while|skip_while|map_while|filter|filter_map|rev|nth)$')
SCAN_ALLOWED = {
    'rough_tlv::decoder': {'skip': 1},               # MessageView::new: xs.iter().zip(xs.iter().skip(1)): adjacent offsets / tags
    'rough_tlv::encoder': {'skip': 1},               # new_from_sorted: elements.iter().zip(elements.iter().skip(1)): adjacent tags
    'sliding_deque::sorted_deque': {'filter': 1},    # SortedDeque::iter: the public iterator hides tombstones
    'owning_iovec::global_deque': {'subslice': 1},   # GlobalDeque::consume: self.slices[..count], the sizes of the slices consumed
}


def _scan_module(name):
    """crate::module of a function path (crate alone for functions at the crate root)"""
    parts = re.sub(r'<[^<>]*>', '', name).split('::')
    return '::'.join(parts[:2]) if len(parts) > 2 and parts[1] and parts[1][0].islower() else parts[0]
_SUBSLICE = ('split_at', 'split_at_mut', 'split_at_checked', 'split_first', 'split_last', 'first_chunk', 'last_chunk', 'chunks', 'chunks_exact', 'rchunks')


_SPINE = ('iter', 'iter_mut', 'into_iter', 'windows', 'map', 'enumerate', 'zip', 'chain', 'skip', 'take', 'step_by', 'copied', 'cloned', 'rev', 'peekable',
          'by_ref', 'filter', 'filter_map', 'take_while', 'skip_while', 'map_while', 'inspect', 'fuse', 'deref', 'deref_mut', 'as_slice', 'as_mut_slice',
          'as_ref', 'as_mut', 'borrow', 'borrow_mut')


def _subslice_sources(it):
    """calls on the *spine* of an iterator expression (receiver of each adaptor; both sides of zip / chain) that hand it a
    part of a slice: `xs[a..b]`, `xs.get(a..b)`, `split_at`, `chunks` ...  Values that merely appear in the expression
    (`once(values.len())`, closure captures, arguments of other calls) are not sources."""
    out, seen, todo = [], set(), [it]
    while todo:
        e = todo.pop()
        if not isinstance(e, E) or id(e) in seen:
            continue
        seen.add(id(e))
        if e.kind != 'call' or not e.op:
            if e.kind in ('ref', 'cast', 'proj', 'phi'):
                todo.extend([e.a] + list(e.args))
            continue
        nm = e.op.rsplit('::', 1)[-1]
        if nm in _SUBSLICE:
            out.append(e)
        elif nm in ('index', 'index_mut', 'get', 'get_mut'):
            for x in e.args[1:]:
                x = x.strip()
                rn = (x.info.get('name') or '') if x.kind == 'agg' else ''
                if 'ops::range::Range' in rn and not rn.endswith('RangeFull'):
                    out.append(e)
                    break
        elif nm in _SPINE and e.args:
            todo.append(e.args[0])
            if nm in ('zip', 'chain') and len(e.args) > 1:
                todo.append(e.args[1])
    return out


def scan_rule(prefixes):
    """Build the rule `no new element-dropping iterator adaptor, no new loop over part of a slice` for the functions whose path starts with one of `prefixes`."""
    def rule(cx):
        found = {}          # (module, kind) -> {source line -> call site}
        seen = nfn = 0
        for fn in cx.prog.find_fns(lambda f: any(f.name.startswith(p) for p in prefixes)):
            nfn += 1
            mod = _scan_module(fn.name)
            for cs in fn.calls():
                if 'Iterator' not in cs.callee or cs.t.get('exp'):
                    continue
                seen += 1
                m = _DROPPING.search(cs.callee)
                if m:
                    # keyed by the source line of the call: a helper spliced into two callers, or a closure turned into a
                    # function, is still one loop
                    found.setdefault((mod, m.group(1)), {}).setdefault(cs.loc(), (fn, cs))
                if cs.args():
                    for sub in _subslice_sources(cs.arg(0)):
                        line = fn.loc(sub.pos.bb, sub.pos.idx) if sub.pos is not None else cs.loc()
                        found.setdefault((mod, 'subslice'), {}).setdefault(line, (fn, cs))
        cx.require(nfn, 'no function under %s' % (prefixes,))
        bad = 0
        mods = sorted({m for m, k in found} | {m for m in SCAN_ALLOWED if any(m.startswith(p) or p.startswith(m) for p in prefixes)})
        for mod in mods:
            have = {k: v for (m, k), v in found.items() if m == mod}
            allowed = SCAN_ALLOWED.get(mod, {})
            extra = {k: len(v) - allowed.get(k, 0) for k, v in have.items() if len(v) > allowed.get(k, 0)}
            cx.count_sites()
            fn, cs = next(iter(next(iter(have.values())).values())) if have else (None, None)
            if extra:
                k0 = sorted(extra)[0]
                fn, cs = list(have[k0].values())[-1]
            cx.check(not extra, 'scan-complete:' + mod, fn, cs.loc() if cs else None,
                     'element-dropping adaptors / loops over part of a slice are the audited ones: %s' % ({k: len(v) for k, v in have.items()} or 'none'),
                     fail_detail='%s gains %s: a loop no longer visits every element of its source, in order (sites: %s; audited on the reference tree: %s)'
                     % (mod, ', '.join(('a loop over part of a slice x%d' % kv[1]) if kv[0] == 'subslice' else '.%s() x%d' % kv for kv in sorted(extra.items())),
                        sorted(l for k in extra for l in have[k]), allowed or 'none'))
            bad += bool(extra)
        cx.check(bad == 0, 'scan-inventory', None, None, '%d functions under %s, %d iterator calls: no element-dropping adaptor or partial source beyond the audited ones'
                 % (nfn, '/'.join(prefixes), seen), fail_detail='%d module(s) gained an element-dropping iterator adaptor or a loop over part of a slice' % bad)
    rule.__doc__ = ('loops visit every element: no iterator adaptor that drops or reorders elements (take, skip, step_by, take_while, skip_while, '
                    'map_while, filter, filter_map, rev, nth) and no loop over a part of a slice in %s beyond the four audited on the reference tree' % ', '.join(prefixes))
    return rule
