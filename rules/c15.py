"""C15 — SlidingDeque: the representation invariant `consumed <= len/2` (which implies
`empty => consumed == 0`) is re-established after every mutation, the reset paths reset
consistently, both views skip the consumed prefix.  Deque equality is NOT decided."""
from .util import *  # noqa: F401,F403
from engine.woodlint.db import Pos, as_relation, show

PROPERTY = 'C15'

EXPLANATION = """
Static analysis of the MIR of every method of sliding_deque::SlidingDeque (fields identified by type:
the usize counter and the Container).  Decided: (R15.1) on every CFG path, each event that can break
`consumed <= len/2` — a non-zero write of the counter, a pop/truncate or any unclassified &mut use of the
container — is followed before `return` by a restore point (counter := 0, an edge implying
counter <= len/k with k >= 2 or counter == 0 computed from values loaded after the event, or a call to a
function all of whose paths restore); (R15.2) every branch on the counter in a &mut method is such a
trigger; (R15.3) a reset of the counter is preceded by the matching shift+truncate of the container;
(R15.4) Deref and DerefMut both index with `counter..`; (R15.5) every increment of the counter is bounded
by the remaining length; (R15.6) nobody else can touch the fields.  With these the debug check_rep
assertions cannot fire and at most half of the container is wasted after every operation.
NOT decided: that returned values and slice contents equal those of a reference deque (value-level).
"""

ASSUMPTIONS = [
    'PushTruncateContainer implementations behave like Vec (push grows by one, pop/truncate shrink, slice lengths agree)',
    'hand argument: counter <= len/2 implies (counter == len => counter == 0), so the trigger false edge restores both check_rep clauses',
]

FLOORS = {'R15.1': 5, 'R15.2': 1, 'R15.3': 2, 'R15.4': 2, 'R15.5': 2, 'R15.6': 3, 'R15.7': 11, 'R15.8': 2}

CLEAN_CONTAINER_USES = ('PushTruncateContainer::push', 'PushTruncateContainer::slice_mut')
DIRTY_CONTAINER_USES = ('PushTruncateContainer::pop', 'PushTruncateContainer::truncate')


class Model:
    def __init__(self, cx):
        prog = cx.prog
        self.adt = prog.adt('sliding_deque::SlidingDeque')
        fields = self.adt['variants'][0]['fields']
        cs = [f for f in fields if f['ty'] == 'usize']
        ks = [f for f in fields if f['ty'] != 'usize']
        cx.require(len(cs) == 1 and len(ks) == 1, 'SlidingDeque no longer has exactly one usize counter and one container field')
        self.counter = cs[0]['n']
        self.container = ks[0]['n']
        self.fns = method_fns(prog, self.adt['name'])
        cx.require(len(self.fns) >= 10, 'fewer than 10 SlidingDeque methods found')
        self.mut_fns = [f for f in self.fns if f.argc >= 1 and f.locals[1].startswith('&mut ') and 'SlidingDeque' in f.locals[1]]
        self._restore_edges = {}
        self.restoring = self.compute_restoring()

    # ---- expression recognisers
    def is_counter(self, e):
        return is_param_field(e, self.counter)

    def is_container(self, e):
        return is_param_field(e, self.container)

    def is_len(self, e):
        """<[T]>::len(PushTruncateContainer::slice(&self.container))"""
        e = e.strip()
        if not is_call(e, 'len') or not e.args:
            return False
        s = e.args[0].strip()
        # (the physical length read through the shared or the mutable view of the same container)
        return (is_call(s, 'PushTruncateContainer::slice') or is_call(s, 'PushTruncateContainer::slice_mut')) and self.is_container(s.args[0])

    def is_threshold(self, e):
        """len / k (k >= 2) or len >> k (k >= 1)"""
        e = e.strip()
        if e.kind == 'binop' and e.op == 'Div' and self.is_len(e.a):
            k = e.b.const_int()
            return k is not None and k >= 2
        if e.kind == 'binop' and e.op == 'Shr' and self.is_len(e.a):
            k = e.b.const_int()
            return k is not None and k >= 1
        return False

    def fact_restores(self, fact):
        rel = as_relation(fact)
        if not rel:
            return None
        op, a, b = rel
        if op in ('Le', 'Lt') and self.is_counter(a) and self.is_threshold(b):
            return [a, b]
        if op in ('Ge', 'Gt') and self.is_counter(b) and self.is_threshold(a):
            return [a, b]
        if op == 'Eq' and self.is_counter(a) and b.is_const_int(0):
            return [a]
        if op == 'Eq' and self.is_counter(b) and a.is_const_int(0):
            return [b]
        return None

    def restore_edges(self, fn):
        """edges whose own facts re-establish the invariant: {(b, s): [load positions]}"""
        if fn.key in self._restore_edges:
            return self._restore_edges[fn.key]
        out = {}
        for b in sorted(fn.live_blocks()):
            if fn.term(b)['k'] != 'switch':
                continue
            for s in fn.succs()[b]:
                for fact in fn.edge_facts(b, s):
                    w = self.fact_restores(fact)
                    if w is not None:
                        loads = []
                        for x in w:
                            for n in x.walk():
                                if n.pos is not None:
                                    loads.append(n.pos)
                        out[(b, s)] = loads
        self._restore_edges[fn.key] = out
        return out

    def zero_stores(self, fn):
        out = []
        for pos, pl, rv in fn.stores():
            if self.is_counter_place(fn, pl) and rv is not None and rv['k'] == 'use' and fn.operand_expr(rv['o']).is_const_int(0):
                out.append(pos)
        return out

    def is_counter_place(self, fn, pl):
        p = pl['p']
        if len(p) == 2 and p[0]['k'] == 'deref' and p[1]['k'] == 'field' and p[1]['n'] == self.counter:
            return fn.local_expr(pl['l'], []).strip().kind == 'param'
        return False

    def restoring_calls(self, fn, restoring):
        out = []
        for cs in fn.calls():
            tgt = cs.key
            if tgt in restoring and cs.nargs() >= 1:
                a = cs.arg(0).strip()
                if a.kind == 'param' and a.info['i'] == 1:
                    out.append(cs.pos)
        return out

    def compute_restoring(self):
        restoring = set()
        while True:
            new = set(restoring)
            for fn in self.mut_fns:
                avoid = self.zero_stores(fn) + self.restoring_calls(fn, restoring)
                edges = list(self.restore_edges(fn))
                # entry -> return avoiding every restore point?
                if not fn.returns():
                    continue
                w = fn.escapes(Pos(0, -1), avoid=avoid, avoid_edges=edges)
                if w is None:
                    new.add(fn.key)
            if new == restoring:
                return restoring
            restoring = new

    def dirty_events(self, fn, cx):
        """[(Pos, description)]"""
        out = []
        for pos, pl, rv in fn.stores():
            p = pl['p']
            base_is_self = fn.local_expr(pl['l'], []).strip().kind == 'param'
            if not base_is_self:
                continue
            if self.is_counter_place(fn, pl):
                if rv is not None and rv['k'] == 'use' and fn.operand_expr(rv['o']).is_const_int(0):
                    continue
                out.append((pos, 'write of %s' % self.counter))
            elif len(p) == 1:
                out.append((pos, 'whole-object overwrite of *self'))
            elif len(p) >= 2 and p[1]['k'] == 'field' and p[1]['n'] == self.container:
                out.append((pos, 'direct overwrite of the container'))
        nrefs = 0
        for pos, st in fn.statements():
            if st['k'] == 'assign' and st['rv']['k'] in ('ref', 'rawptr') and st['rv'].get('mut'):
                pl = st['rv']['pl']
                p = pl['p']
                if len(p) >= 2 and p[0]['k'] == 'deref' and p[1]['k'] == 'field' and p[1]['n'] == self.container \
                        and fn.local_expr(pl['l'], []).strip().kind == 'param':
                    nrefs += 1
        nused = 0
        for cs in fn.calls():
            for i, a in enumerate(cs.args()):
                if a.kind == 'ref' and a.info.get('mut') and self.is_container(a.a):
                    nused += 1
                    if i == 0 and cs.matches(CLEAN_CONTAINER_USES):
                        continue
                    if i == 0 and cs.matches(DIRTY_CONTAINER_USES):
                        out.append((cs.pos, short(cs.callee) + ' on the container'))
                    else:
                        out.append((cs.pos, 'unclassified &mut use of the container by ' + short(cs.callee)))
        if nused != nrefs:
            out.append((Pos(0, -1), '&mut borrow of the container with a use the rule cannot classify'))
        return out


def r15_1(cx):
    """every mutation of counter/container is followed by a restore point on all paths to return"""
    m = Model(cx)
    cx.check(len(m.restoring) >= 3, 'restoring-functions', detail='functions all of whose paths restore the invariant (by effect): %s'
             % ', '.join(sorted(short(cx.prog.fns[k].name) for k in m.restoring)),
             fail_detail='fewer than 3 functions restore the invariant on all paths: %s' % sorted(m.restoring))
    for fn in m.mut_fns:
        dirty = m.dirty_events(fn, cx)
        zs = m.zero_stores(fn)
        rc = m.restoring_calls(fn, m.restoring)
        re = m.restore_edges(fn)
        for pos, desc in dirty:
            cx.count_sites()
            # a trigger edge counts only if its operands were loaded after the dirty event
            edges = [e for e, loads in re.items() if not any(fn.pos_dominates(l, pos) for l in loads)]
            w = fn.escapes(pos, avoid=zs + rc, avoid_edges=edges)
            cx.count_paths()
            inst = '%s:%s' % (desc, _ordinal(dirty, pos, desc))
            if w is None:
                cx.ok(inst, fn, fn.loc(pos.bb, pos.idx), 'every path to return passes a restore point (%d zero-writes, %d restoring calls, %d trigger edges)'
                      % (len(zs), len(rc), len(edges)))
            else:
                cx.fail(inst, fn, fn.loc(pos.bb, pos.idx), 'after this event there is a path to return through no restore point: %s'
                        % fn.show_path(w))


def _ordinal(events, pos, desc):
    same = [p for p, d in events if d == desc]
    return same.index(pos)


def r15_2(cx):
    """every branch on the counter in a &mut method is a slide trigger that implies counter <= len/k, k >= 2"""
    m = Model(cx)
    n = 0
    for fn in m.mut_fns:
        for b in sorted(fn.live_blocks()):
            if fn.term(b)['k'] != 'switch':
                continue
            e = fn.switch_expr(b)
            if not any(m.is_counter(x) for x in e.walk()):
                continue
            # an assertion (one side never returns) decides nothing on the paths that do return
            ss = fn.succs()[b]
            if len(ss) == 2 and any(fn.path(s_, fn.returns()) is None for s_ in ss) and not any((b, s_) in m.restore_edges(fn) for s_ in ss):
                continue
            # in a function that mutates the counter / container, a branch that none of its mutations can reach (an
            # early `return 0` before anything happened) is not a trigger: there is nothing to restore yet on either
            # side.  (A function without mutations of its own, like maybe_slide, is all trigger.)
            dirty = m.dirty_events(fn, cx)
            if dirty and not any(k[0] == b for k in m.restore_edges(fn)) and not any(pos.idx < 0 for pos, _d in dirty) and \
                    not any(pos.bb == b or b in fn.reachable(pos.bb) for pos, _d in dirty if pos.idx >= 0):
                continue
            n += 1
            cx.count_sites()
            edges = [k for k in m.restore_edges(fn) if k[0] == b]
            inst = 'trigger#%d' % n
            if edges:
                # the other side must reach a restore point
                other = [s for s in fn.succs()[b] if (b, s) not in edges]
                bad = None
                for s in other:
                    avoid = m.zero_stores(fn) + m.restoring_calls(fn, m.restoring)
                    w = fn.escapes(Pos(b, len(fn.blocks[b]['st'])), avoid=avoid, avoid_edges=list(m.restore_edges(fn)))
                    if w is not None:
                        bad = w
                cx.check(bad is None, inst, fn, fn.loc(b), 'condition %s: edge bb%d->bb%d implies the invariant, the other side reaches a reset'
                         % (show(e), edges[0][0], edges[0][1]),
                         fail_detail='the triggering side of %s can return without resetting: %s' % (show(e), fn.show_path(bad)))
            else:
                cx.fail(inst, fn, fn.loc(b), 'branch on the counter whose edges do not imply counter <= len/k (k >= 2) or counter == 0: %s' % show(e))


def _len_minus_counter(m, n):
    """len - counter in any spelling: the invariant these rules establish together (counter <= len/2) makes the
    saturating, wrapping and plain subtraction the same number"""
    n = n.strip()
    if n.kind == 'call' and n.op.rsplit('::', 1)[-1] in ('saturating_sub', 'wrapping_sub') and len(n.args) == 2:
        return m.is_len(n.args[0]) and m.is_counter(n.args[1])
    return n.kind == 'binop' and n.op == 'Sub' and m.is_len(n.a) and m.is_counter(n.b)


def r15_3(cx):
    """a reset of the counter is preceded by copy_within(counter.., 0) and truncate(len - counter), or truncate(0)"""
    m = Model(cx)
    for fn in m.mut_fns:
        for zpos in m.zero_stores(fn):
            cx.count_sites()
            truncs = [cs for cs in fn.calls('PushTruncateContainer::truncate')
                      if cs.arg(0).kind == 'ref' and m.is_container(cs.arg(0).a) and fn.pos_dominates(cs.pos, zpos)]
            if not truncs:
                cx.fail('reset', fn, fn.loc(zpos.bb, zpos.idx), 'counter reset to 0 is not dominated by a truncate of the container')
                continue
            t = truncs[-1]
            n = t.arg(1).strip()
            if n.is_const_int(0):
                cx.ok('reset', fn, fn.loc(zpos.bb, zpos.idx), 'truncate(0) then counter := 0')
                continue
            ok_len = _len_minus_counter(m, n)
            cw = [cs for cs in fn.calls('copy_within') if fn.pos_dominates(cs.pos, t.pos)]
            ok_cw = False
            for cs in cw:
                recv = cs.arg(0).strip()
                rng = cs.arg(1).strip()
                dst = cs.arg(2)
                if is_call(recv, 'PushTruncateContainer::slice_mut') and m.is_container(recv.args[0]) and rng.kind == 'agg' \
                        and rng.info.get('variant') == 'RangeFrom' and m.is_counter(rng.args[0]) and dst.is_const_int(0):
                    ok_cw = True
            cx.check(ok_len and ok_cw, 'reset', fn, fn.loc(zpos.bb, zpos.idx),
                     'copy_within(counter.., 0) -> truncate(len - counter) -> counter := 0, in that order',
                     fail_detail='counter reset without the matching shift: truncate arg = %s, copy_within(counter.., 0) before it: %s'
                     % (show(n), ok_cw))


def r15_4(cx):
    """Deref and DerefMut return container.slice[_mut]()[counter..]"""
    m = Model(cx)
    for suffix, slicer, idx in (('Deref>::deref', 'PushTruncateContainer::slice', 'Index<I>>::index'),
                                ('DerefMut>::deref_mut', 'PushTruncateContainer::slice_mut', 'IndexMut<I>>::index_mut')):
        fs = [f for f in m.fns if f.name.endswith(suffix)]
        cx.require(len(fs) == 1, 'expected one %s impl on SlidingDeque' % suffix)
        fn = fs[0]
        rets = fn.returns()
        e = fn.local_expr(0, []).strip()
        cx.count_sites()
        ok = is_call(e, idx) and is_call(e.args[0], slicer) and m.is_container(e.args[0].strip().args[0])
        if ok:
            r = e.args[1].strip()
            ok = r.kind == 'agg' and r.info.get('variant') == 'RangeFrom' and m.is_counter(r.args[0])
        if not ok:
            # the same view spelled slice.split_at[_mut](counter).1
            sp = e.a.strip() if e.kind == 'proj' and e.op == 'field' and e.info.get('i') == 1 and e.a is not None else None
            ok = sp is not None and sp.kind == 'call' and sp.op.rsplit('::', 1)[-1] in ('split_at', 'split_at_mut') and len(sp.args) == 2 and \
                is_call(sp.args[0], slicer) and m.is_container(sp.args[0].strip().args[0]) and m.is_counter(sp.args[1])
        cx.check(ok, 'view', fn, fn.loc(), 'returns %s' % show(e), fail_detail='the view is not container[counter..]: returns %s' % show(e))


def r15_5(cx):
    """every increment of the counter is bounded by the remaining length"""
    m = Model(cx)
    for fn in m.mut_fns:
        for pos, pl, rv in fn.stores():
            if not m.is_counter_place(fn, pl) or rv is None:
                continue
            v = fn.rvalue_expr(rv).strip()
            if v.is_const_int(0):
                continue
            cx.count_sites()
            inst = 'increment'
            if not (v.kind == 'binop' and v.op == 'Add' and m.is_counter(v.a)):
                cx.fail(inst, fn, fn.loc(pos.bb, pos.idx), 'counter written with something other than counter + n: %s' % show(v))
                continue
            inc = v.b.strip()
            if inc.is_const_int(1):
                # must be on the Some edge of front()/first(): the deque is not empty
                facts = fn.facts_at(pos.bb)
                ok = False
                for e, val, edge in facts:
                    if e.kind == 'discr' and (e.has_call('SlidingDeque::front') or e.has_call('first')):
                        if e.has_call('Try>::branch') and val == ('in', frozenset([0])):
                            ok = True
                        elif not e.has_call('Try>::branch') and val == ('in', frozenset([1])):
                            ok = True
                cx.check(ok, inst, fn, fn.loc(pos.bb, pos.idx), 'counter += 1 only where front() returned Some',
                         fail_detail='counter += 1 is not dominated by a non-emptiness test')
            else:
                ok = is_call(inc, 'Ord::min') and any(_len_minus_counter(m, a.strip()) for a in inc.args)
                cx.check(ok, inst, fn, fn.loc(pos.bb, pos.idx), 'counter += min(len.saturating_sub(counter), count)',
                         fail_detail='increment %s is not clamped to len - counter' % show(inc))


def r15_6(cx):
    """fields are private to the module and a SlidingDeque is only ever built with counter 0"""
    m = Model(cx)
    for f in m.adt['variants'][0]['fields']:
        cx.check(not f['vis'].startswith('Public'), 'field-private:' + f['n'], None, '%s:%s' % (m.adt['file'], m.adt['line']),
                 'visibility %s' % f['vis'].split('~')[-1], fail_detail='field %s is public' % f['n'])
    for fn in cx.prog.fns.values():
        for pos, st in fn.statements():
            if st['k'] == 'assign' and st['rv']['k'] == 'agg' and st['rv']['name'] == m.adt['key']:
                cx.count_sites()
                idx = [i for i, f in enumerate(m.adt['variants'][0]['fields']) if f['n'] == m.counter][0]
                v = fn.operand_expr(st['rv']['ops'][idx]).strip()
                ok = v.is_const_int(0) or (fn.d.get('derived') and (is_call(v, 'Default>::default') or is_call(v, 'Clone>::clone')
                                                                    or is_call(v, 'default') or is_call(v, 'clone')))
                cx.check(ok, 'constructed-with-zero-or-derived', fn, fn.loc(pos.bb, pos.idx), 'counter initialised with %s' % show(v),
                         fail_detail='SlidingDeque built with a counter that is neither 0 nor a derived copy: %s' % show(v))


def r15_7(cx):
    """the containers the deque stands on: every PushTruncateContainer impl in the crate is a thin delegation (one call to the std / smallvec method of the same name, parameters forwarded, nothing else)"""
    prog = cx.prog
    # (the whole-container views: deref / deref_mut, or the inherent as_slice / as_mut_slice they are defined as)
    want = {'push': ('push',), 'pop': ('pop',), 'truncate': ('truncate',), 'slice': ('deref', 'as_slice'), 'slice_mut': ('deref_mut', 'as_mut_slice')}
    n = 0
    for f in sorted(prog.fns.values(), key=lambda f: f.name):
        if f.crate != 'sliding_deque' or ' as sliding_deque::sliding_deque::PushTruncateContainer>::' not in f.name or f.kind == 'Closure':
            continue
        m = f.name.rsplit('::', 1)[-1]
        if m not in want:
            continue
        n += 1
        cx.count_sites()
        calls = list(f.calls())
        r = f.local_expr(0, []).strip()
        ok = len(calls) == 1 and calls[0].callee.rsplit('::', 1)[-1] in want[m] and f.is_acyclic() and \
            [a.strip().kind for a in calls[0].args()] == ['param'] * calls[0].nargs() and [a.strip().info['i'] for a in calls[0].args()] == list(range(1, f.argc + 1)) and \
            (m in ('push', 'truncate') or (r.kind == 'call' and r.pos == calls[0].pos))
        cx.check(ok, 'delegates:' + short(f.name), f, None, '%s forwards to %s(self%s)' % (m, short(calls[0].callee) if calls else '?', ', ..' if f.argc > 1 else ''),
                 fail_detail='%s does more than forward to the container\'s own %s: %s' % (short(f.name), '/'.join(want[m]), [short(c.callee) for c in calls]))
    cx.check(n >= 10, 'impls-found', None, 'sliding_deque/src/sliding_deque.rs', '%d container methods checked' % n, fail_detail='only %d container methods found' % n)


def r15_8(cx):
    """pop_back removes what it returns: every Some it returns follows a pop of the container, in every build profile"""
    prog = cx.prog
    f = prog.fn('sliding_deque::sliding_deque::SlidingDeque::pop_back')
    pops = [c for c in f.calls() if c.callee.endswith('PushTruncateContainer::pop')]
    somes = [pos for pos, st in f.statements() if st['k'] == 'assign' and st['pl']['l'] == 0 and st['rv']['k'] == 'agg' and st['rv']['variant'] == 'Some']
    ok = bool(pops) and bool(somes) and all(any(f.pos_dominates(p.pos, s_) for p in pops) for s_ in somes)
    cx.check(ok, 'pop_back-removes', f, pops[0].loc() if pops else None, 'Some(item) is returned only after container.pop()',
             fail_detail='pop_back returns an item without removing it from the container in this build (%d pop call(s), %d Some site(s))' % (len(pops), len(somes)))
    g = prog.fn('sliding_deque::sliding_deque::SlidingDeque::pop_front')
    st = [pos for pos, pl, rv in g.stores() if pl['p'] and pl['p'][-1].get('n') == 'consumed_prefix']
    somes = [pos for pos, s_ in g.statements() if s_['k'] == 'assign' and s_['pl']['l'] == 0 and s_['rv']['k'] == 'agg' and s_['rv']['variant'] == 'Some']
    okf = bool(st) and bool(somes) and all(any(g.pos_dominates(a, b_) for a in st) for b_ in somes)
    cx.check(okf, 'pop_front-advances', g, None, 'Some(item) is returned only after the consumed prefix moved', fail_detail='pop_front returns an item without consuming it in this build')


RULES = [('R15.1', r15_1), ('R15.2', r15_2), ('R15.3', r15_3), ('R15.4', r15_4), ('R15.5', r15_5), ('R15.6', r15_6), ('R15.7', r15_7), ('R15.8', r15_8)]
RULES.append(('R15.9', scan_rule(('sliding_deque::sliding_deque::',))))
FLOORS['R15.9'] = 1
