"""Anchors shared by C13 / C18 / C19: the AtomicBaseTime seqlock in vouched_time."""
from .util import *  # noqa: F401,F403
from engine.woodlint.db import Unrecognised

ATOMIC_PREFIX = 'std::sync::atomic::Atomic'


def ordering_variant(o):
    """Ordering::X written in place (an aggregate) or through a named constant evaluated at compile time."""
    o = o.strip()
    if o.kind == 'agg' and 'Ordering' in o.info.get('name', ''):
        return o.info.get('variant')
    if o.kind == 'const' and 'atomic::Ordering' in (o.info.get('ty') or ''):
        return o.info.get('variant')
    return None


class ABT:
    def __init__(self, cx):
        prog = cx.prog
        self.prog = prog
        self.adt = prog.adt('atomic_base_time::AtomicBaseTime')
        self.slot_adt = prog.adt('atomic_base_time::BaseTime')
        fields = self.adt['variants'][0]['fields']

        def one(pred, what):
            m = [f for f in fields if pred(f['ty'])]
            if len(m) != 1:
                raise Unrecognised('AtomicBaseTime: expected exactly one %s field, found %d' % (what, len(m)))
            return m[0]['n']
        self.lock = one(lambda t: 'Mutex<' in t, 'Mutex')
        self.slots = one(lambda t: t.startswith('[') and 'BaseTime' in t, 'slot array')
        cands = [f['n'] for f in fields if f['ty'].startswith('std::sync::atomic::Atomic') and 'u64' in f['ty']]
        if len(cands) > 1:
            # the sequence word is the atomic whose loaded value selects the slot
            used = set()
            for f in prog.fns.values():
                if (self.adt['name'].rsplit('::', 1)[0] + '::') not in f.name:
                    continue
                for cs in f.calls():
                    for a in cs.args():
                        for n in a.walk():
                            if n.kind == 'proj' and n.op == 'index' and is_param_field(n.a, self.slots) and n.b is not None:
                                for l in n.b.walk():
                                    if l.kind == 'call' and l.op.endswith('::load') and l.args and l.args[0].strip().kind == 'proj':
                                        used.add(l.args[0].strip().info.get('n'))
            cands = [c for c in cands if c in used]
        if len(cands) != 1:
            raise Unrecognised('AtomicBaseTime: cannot identify the sequence word (atomic u64 fields selecting a slot: %s)' % cands)
        self.seq = cands[0]
        sf = self.slot_adt['variants'][0]['fields']
        if len(sf) != 2 or not all('Atomic' in f['ty'] for f in sf):
            raise Unrecognised('BaseTime is no longer a pair of atomics')
        self.slot_fields = [f['n'] for f in sf]
        self.module = self.adt['name'].rsplit('::', 1)[0]
        self.fns = sorted([f for f in prog.fns.values() if (self.module + '::') in f.name], key=lambda f: f.name)
        self.snapshot = prog.fn(self.adt['name'] + '::snapshot')
        self.update = prog.fn(self.adt['name'] + '::update')
        self.try_update = prog.fn(self.adt['name'] + '::try_update')
        self.new = prog.fn(self.adt['name'] + '::new')
        self.slot_update = prog.fn(self.slot_adt['name'] + '::update')
        self.slot_snapshot = prog.fn(self.slot_adt['name'] + '::snapshot')
        self.slot_new = prog.fn(self.slot_adt['name'] + '::new')
        # the publisher: the one function that stores to the sequence word
        pubs = []
        for f in self.fns:
            for cs in f.calls():
                if self.atomic_op(cs) and self.atomic_field(cs) == self.seq and self.atomic_op(cs) != 'load':
                    if f not in pubs:
                        pubs.append(f)
        if len(pubs) != 1:
            raise Unrecognised('expected exactly one function writing the sequence word, found %s' % [f.name for f in pubs])
        self.publisher = pubs[0]

    # ---- atomics
    def atomic_op(self, cs):
        """'load' / 'store' / other method name for calls on std atomics, else None"""
        c = cs.callee
        if c.startswith(ATOMIC_PREFIX) or c.startswith('core::sync::atomic::Atomic'):
            return c.rsplit('::', 1)[-1]
        return None

    def atomic_field(self, cs):
        """name of the self-field the atomic call operates on, or None"""
        if cs.nargs() == 0:
            return None
        a = cs.arg(0).strip()
        if a.kind == 'proj' and a.op == 'field':
            return a.info.get('n')
        return None

    def ordering(self, cs):
        """variant name of the Ordering operand (last arg), or None if not a constant"""
        if cs.nargs() == 0:
            return None
        o = cs.arg(cs.nargs() - 1).strip()
        return ordering_variant(o)

    def is_seq_load(self, e):
        e = e.strip()
        if e.kind == 'call' and e.op.startswith(ATOMIC_PREFIX) and e.op.endswith('::load') and is_param_field(e.args[0], self.seq):
            return True
        return self.wrapped_seq_load(e) is not None

    def wrapped_seq_load(self, e):
        """e is a call to a local accessor whose whole body is `self.<seq>.load(ORDER)`: returns (fn, ordering)"""
        e = e.strip()
        if e.kind != 'call':
            return None
        f = self.prog.fns.get(e.info.get('key'))
        if f is None or f.argc != 1 or not e.args or e.args[0].strip().kind != 'param':
            return None
        r = f.local_expr(0, []).strip()
        if r.kind == 'call' and r.op.startswith(ATOMIC_PREFIX) and r.op.endswith('::load') and is_param_field(r.args[0], self.seq):
            o = r.args[-1].strip()
            return f, ordering_variant(o)
        return None

    def seq_load_ordering(self, e):
        e = e.strip()
        w = self.wrapped_seq_load(e)
        if w is not None:
            return w[1]
        if e.kind == 'call' and e.args:
            o = e.args[-1].strip()
            return ordering_variant(o)
        return None

    def slot_index_expr(self, e):
        """for &self.snapshots[idx] return idx expr else None"""
        e = e.strip()
        if e.kind == 'proj' and e.op == 'index' and is_param_field(e.a, self.slots):
            return e.b
        return None

    def is_mod_len(self, idx, of):
        """idx == (of as usize) % self.snapshots.len(), `of` a predicate on the dividend"""
        i = idx.strip()
        if not (i.kind == 'binop' and i.op == 'Rem'):
            return False
        d = i.b.strip()
        if not (is_call(d, 'len') and is_param_field(d.args[0], self.slots)) and not d.is_const_int(2):
            return False
        return of(i.a.strip())
