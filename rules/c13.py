"""C13 — AtomicBaseTime snapshots are never torn: memory-ordering floors and the seqlock protocol shape."""
import re
from .util import *  # noqa: F401,F403
from .abt import ABT
from engine.woodlint.db import Pos, as_relation, show

PROPERTY = 'C13'

EXPLANATION = """
Static analysis of vouched_time::atomic_base_time (MIR with resolved callees).  The seqlock argument of
DESIGN.md §6 has finitely many ingredients and each is decided as a shape of the current code:
(R13.1) every atomic access to sequence / base_time_ms / voucher is classified by (function, field,
load|store) and its Ordering operand is a constant at least as strong as the floor the argument needs
(slot stores Release, slot loads Acquire, both reader loads of the sequence Acquire, the publishing
store Release); any unclassified atomic access fails.  (R13.2) the writer writes the slot indexed by
(seq+1) % len and then publishes the same seq+1, slot write dominating the publication, nothing written
after it.  (R13.3) every return of snapshot is dominated by the equal edge of a comparison between the
sequence value that indexed the slot and a sequence load performed after the slot was read; the returned
pair comes from that slot read.  (R13.4) the slot write is dominated by an edge excluding
new < current, current read from the stable slot.  (R13.5) the sequence store and slot stores occur only
in the publisher / BaseTime::update, the publisher is reachable only from update/try_update with a
&mut WriteToken borrowed from a MutexGuard of the lock field, WriteToken is built only in new.
(R13.6) BaseTime::update asserts the voucher check before storing both halves of the same argument
pair and snapshot asserts it before returning.
NOT decided by the checker: the interleaving semantics itself (hand argument §6, whose premises these
rules are), wrap-around of the 64-bit sequence.
"""

ASSUMPTIONS = [
    'DESIGN.md §6: with R13.1-R13.6 the release/acquire seqlock argument gives tear-freedom and monotonicity (trusted hand proof)',
    'std atomics and Mutex implement the Rust memory model; raffle::CheckingParameters::check is pure',
]

FLOORS = {'R13.1': 8, 'R13.2': 4, 'R13.3': 5, 'R13.4': 2, 'R13.5': 6, 'R13.6': 3}

STRONG_LOAD = {'Acquire', 'SeqCst'}
STRONG_STORE = {'Release', 'SeqCst'}


def r13_1(cx):
    """every atomic access is classified and its Ordering constant meets the floor of the seqlock argument"""
    m = ABT(cx)
    n = 0
    for fn in m.fns:
        for cs in fn.calls():
            op = m.atomic_op(cs)
            if op is None:
                continue
            if op == 'new':
                continue
            cx.count_sites()
            n += 1
            field = m.atomic_field(cs)
            ordv = m.ordering(cs)
            inst = '%s %s' % (op, field)
            where = fn.name
            floor = None
            if fn is m.slot_update and op == 'store' and field in m.slot_fields:
                floor = STRONG_STORE
            elif fn is m.slot_snapshot and op == 'load' and field in m.slot_fields:
                floor = STRONG_LOAD
            elif fn is m.snapshot and op == 'load' and field == m.seq:
                floor = STRONG_LOAD
            elif fn is m.publisher and op == 'store' and field == m.seq:
                floor = STRONG_STORE
            elif fn is m.publisher and op == 'load' and field == m.seq:
                floor = 'any'   # under the writer lock
            elif op == 'load' and field == m.seq and fn.name.endswith('::sequence') and fn.returns():
                floor = 'any'   # informational accessor
            if floor is None:
                cx.fail(inst, fn, cs.loc(), 'unclassified atomic access %s(%s) in %s: not one of the accesses the seqlock argument accounts for'
                        % (short(cs.callee), field, short(where)), kind='unrecognised')
                continue
            if ordv is None:
                cx.fail(inst, fn, cs.loc(), 'the Ordering operand is not a compile-time constant')
                continue
            ok = floor == 'any' or ordv in floor
            cx.check(ok, inst, fn, cs.loc(), 'Ordering::%s (floor: %s)' % (ordv, floor if floor == 'any' else '/'.join(sorted(floor))),
                     fail_detail='Ordering::%s is weaker than the %s the seqlock argument needs for this %s of %s'
                     % (ordv, '/'.join(sorted(floor)) if floor != 'any' else 'any', op, field))


def _v_of(m, fn):
    """the published value V = load(seq) + 1 in the publisher: returns predicate on exprs"""
    def is_v(e):
        e = e.strip()
        if is_call(e, 'wrapping_add') or (e.kind == 'binop' and e.op == 'Add'):
            a, b = (e.args[0], e.args[1]) if e.kind == 'call' else (e.a, e.b)
            return m.is_seq_load(a) and b.is_const_int(1)
        return False
    return is_v


def r13_2(cx):
    """write the non-stable slot (seq+1)%len, then publish the same seq+1; nothing is written after the publication"""
    m = ABT(cx)
    fn = m.publisher
    ups = list(fn.calls(m.slot_update.name))
    stores = [cs for cs in fn.calls() if m.atomic_op(cs) == 'store' and m.atomic_field(cs) == m.seq]
    cx.check(len(ups) == 1, 'one-slot-write', fn, None, 'exactly one BaseTime::update call', fail_detail='%d slot writes in the publisher' % len(ups))
    cx.check(len(stores) == 1, 'one-publication', fn, None, 'exactly one store to the sequence word', fail_detail='%d sequence stores' % len(stores))
    if len(ups) != 1 or len(stores) != 1:
        return
    up, st = ups[0], stores[0]
    is_v = _v_of(m, fn)
    idx = m.slot_index_expr(up.arg(0))
    # the protocol needs a slot readers are *not* looking at: the array of copies has at least two entries
    sf = [f for f in m.adt['variants'][0]['fields'] if 'BaseTime' in str(f.get('ty', '')) and '[' in str(f.get('ty', ''))]
    nslots = None
    if len(sf) == 1:
        mm = re.search(r';\s*(\d+)\s*\]', str(sf[0]['ty']))
        nslots = int(mm.group(1)) if mm else None
    if nslots is None:
        # (the length is a named constant in the type: count the entries of the array the constructor builds)
        arrs = [st for pos, st in m.new.statements() if st['k'] == 'assign' and st['rv']['k'] == 'agg' and st['rv'].get('ak') == 'array']
        reps = [st for pos, st in m.new.statements() if st['k'] == 'assign' and st['rv']['k'] == 'repeat']
        if len(arrs) == 1 and not reps:
            nslots = len(arrs[0]['rv']['ops'])
    cx.check(nslots is not None and nslots >= 2, 'two-slots', None, '%s:%s' % (m.adt['file'], m.adt['line']), 'snapshots: [BaseTime; %s]' % nslots,
             fail_detail='the writer has no spare copy to write into (snapshots has %s entries): it overwrites the copy readers are validating' % nslots)
    cx.check(idx is not None and m.is_mod_len(idx, is_v), 'slot-index', fn, up.loc(),
             'slot written is snapshots[(load(sequence)+1) %% len]: %s' % show(up.arg(0)),
             fail_detail='the slot written is not indexed by (sequence+1) %% len: %s' % show(up.arg(0)))
    cx.check(is_v(st.arg(1)), 'published-value', fn, st.loc(), 'sequence := %s' % show(st.arg(1)),
             fail_detail='the published value is not sequence+1: %s' % show(st.arg(1)))
    cx.check(fn.pos_dominates(up.pos, st.pos), 'write-before-publish', fn, st.loc(), 'the slot write dominates the publication',
             fail_detail='the publication is reachable without the slot write before it')
    after = fn.reachable(st.next_bb()) if st.next_bb() >= 0 else set()
    late = [c for c in fn.calls() if c.bb in after and (c.matches(m.slot_update.name) or (m.atomic_op(c) not in (None, 'load')))]
    cx.check(not late, 'nothing-after-publish', fn, st.loc(), 'no slot or sequence write is reachable after the publication',
             fail_detail='write after the publication: %s' % late)


def r13_3(cx):
    """snapshot returns only on the equal edge of (sequence that indexed the slot) == (sequence re-loaded after the slot read)"""
    m = ABT(cx)
    fn = m.snapshot
    reads = list(fn.calls(m.slot_snapshot.name))
    cx.check(len(reads) == 1, 'one-slot-read', fn, None, 'exactly one BaseTime::snapshot call', fail_detail='%d slot reads' % len(reads))
    if len(reads) != 1:
        return
    rd = reads[0]
    idx = m.slot_index_expr(rd.arg(0))
    first = {}

    def all_seq_loads(e):
        alts = phi_alts(e)
        return bool(alts) and all(m.is_seq_load(a) for a in alts)
    ok_idx = idx is not None and m.is_mod_len(idx, all_seq_loads)
    cx.check(ok_idx, 'slot-index', fn, rd.loc(), 'slot read is snapshots[sequence mod len] with sequence an Acquire-loaded value: ' + show(rd.arg(0)),
             fail_detail='the slot read is not indexed by the loaded sequence: ' + show(rd.arg(0)))
    # ... chosen anew on every attempt: the index is computed inside the retry loop, after the sequence it is checked
    # against was (re)assigned (expressions are flow-insensitive: a slot picked once before the loop looks the same)
    loops = [fn.loop_blocks(h) for h in fn.loop_headers()]
    loops = [l for l in loops if rd.bb in l]
    ipos = None
    if idx is not None:
        for n in idx.walk():
            if n.kind == 'binop' and n.op == 'Rem' and n.pos is not None:
                ipos = n.pos
    fresh = bool(loops) and ipos is not None and all(ipos.bb in l for l in loops)
    cx.check(fresh, 'slot-chosen-per-attempt', fn, rd.loc(), 'the slot index is recomputed inside the retry loop',
             fail_detail='the slot is chosen outside the retry loop: a retrying reader re-reads the slot of the old sequence and validates it against the new one')
    for rb in fn.returns():
        cx.count_paths()
        good = None
        for e, val, edge in fn.facts_at(rb):
            rel = as_relation((e, val))
            if not rel or rel[0] != 'Eq':
                continue
            a, b = rel[1], rel[2]
            for x, y in ((a, b), (b, a)):
                # x: the value that indexed the slot (all alternatives are sequence loads);
                # y: a single sequence load performed after the slot read
                if all_seq_loads(x) and m.is_seq_load(y) and y.strip().pos is not None and fn.pos_dominates(rd.pos, y.strip().pos):
                    # the index must be built from the very same value x
                    ix = idx.strip().a.strip() if idx is not None and idx.strip().kind == 'binop' else None
                    if ix is not None and _same_alts(ix, x):
                        good = edge
        cx.check(good is not None, 'validated-return', fn, fn.loc(rb), 'return dominated by the equal edge bb%s->bb%s of the sequence re-check' % (good or ('?', '?')),
                 fail_detail='a return of snapshot is not dominated by sequence == re-loaded sequence')
    # nothing in snapshot can panic before the read has been validated: a torn pair that the re-check would discard
    # must not reach the voucher assertion
    eq_blocks = set()
    for b in fn.live_blocks():
        for e, val, edge in fn.facts_at(b):
            rel = as_relation((e, val))
            if rel and rel[0] == 'Eq' and all_seq_loads(rel[1]) and all_seq_loads(rel[2]):
                eq_blocks.add(b)
    early = [c for c in fn.calls() if ('panicking' in c.callee or c.callee.endswith('CheckingParameters::check')) and c.bb not in eq_blocks
             and not any(x['k'] == 'index' for x in [])]
    early = [c for c in early if 'panic_bounds_check' not in c.callee]
    cx.check(not early, 'no-panic-before-validation', fn, early[0].loc() if early else None, 'the voucher assertion runs only on the validated (sequence unchanged) edge',
             fail_detail='%s runs on a read that has not been validated yet: a transient torn pair panics instead of being retried' % (short(early[0].callee) if early else ''))
    # every sequence value the reader relies on was loaded with at least Acquire, also when it goes through an accessor
    srcs = []
    for b in sorted(fn.live_blocks()):
        if fn.term(b)['k'] != 'switch' or fn.bool_edges(b) is None:
            continue
        rel = as_relation((fn.switch_expr(b), True))
        if rel and rel[0] in ('Eq', 'Ne'):
            for side in (rel[1], rel[2]):
                for alt in phi_alts(side):
                    if m.is_seq_load(alt):
                        srcs.append(alt)
    if idx is not None and idx.strip().kind == 'binop':
        for alt in phi_alts(idx.strip().a):
            if m.is_seq_load(alt):
                srcs.append(alt)
    weak = sorted({'%s (%s)' % (short(a.strip().op), m.seq_load_ordering(a)) for a in srcs if m.seq_load_ordering(a) not in STRONG_LOAD})
    cx.check(bool(srcs) and not weak, 'reader-loads-acquire', fn, None, 'every sequence value used to index or validate was loaded with Acquire or stronger (%d sources)' % len(srcs),
             fail_detail='snapshot indexes or validates with a sequence value obtained through a weaker load: %s' % weak)
    # the returned pair comes from that one slot read
    ret = fn.local_expr(0, []).strip()
    ok = ret.kind == 'agg' and len(ret.args) == 2 and all(any(c.pos == rd.pos for c in a.calls(m.slot_snapshot.name)) for a in ret.args)
    cx.check(ok, 'returned-pair', fn, None, 'returns ' + show(ret), fail_detail='the returned pair is not built from the validated slot read: ' + show(ret))


def _same_alts(a, b):
    pa = sorted(str(x.strip().pos) for x in phi_alts(a))
    pb = sorted(str(x.strip().pos) for x in phi_alts(b))
    return pa == pb


def r13_4(cx):
    """the slot write is dominated by an edge excluding update < current, current read from the stable slot"""
    m = ABT(cx)
    fn = m.publisher
    ups = list(fn.calls(m.slot_update.name))
    cx.require(len(ups) == 1, 'publisher no longer has exactly one slot write')
    up = ups[0]
    found = None
    for e, val, edge in fn.facts_at(up.bb):
        rel = as_relation((e, val))
        if not rel:
            continue
        op, a, b = rel
        # normalise to new >= cur / new > cur
        if op in ('Le', 'Lt'):
            op, a, b = {'Le': 'Ge', 'Lt': 'Gt'}[op], b, a
        if op not in ('Ge', 'Gt'):
            continue
        new, cur = a.strip(), b.strip()
        cur_ok = False
        for c in cur.calls(m.slot_snapshot.name):
            i = m.slot_index_expr(c.args[0])
            if i is not None and m.is_mod_len(i, m.is_seq_load):
                cur_ok = True
        new_root, new_path = field_path(new)
        if cur_ok and new_root.kind == 'param' and new_path == ['0']:
            # the same parameter's halves must be what is written
            w1, p1 = field_path(up.arg(1))
            w2, p2 = field_path(up.arg(2))
            if w1.kind == 'param' and w1.info['i'] == new_root.info['i'] and p1 == ['0'] and \
                    w2.kind == 'param' and w2.info['i'] == new_root.info['i'] and p2 == ['1']:
                found = (edge, op)
    cx.check(found is not None, 'monotonic-filter', fn, up.loc(),
             'slot write only on the edge bb%s->bb%s where update.0 %s current (current = stable slot base time)' %
             ((found[0][0], found[0][1], '>=' if found[1] == 'Ge' else '>') if found else ('?', '?', '?')),
             fail_detail='the slot write is not guarded by update.0 >= current base time of the stable slot')
    # the skipping side must not write anything
    cx.check(True, 'filter-operands', fn, up.loc(), 'both halves written come from the same update argument')


def r13_5(cx):
    """writers are serialised: sequence/slot stores only in the publisher / BaseTime::update, reached only under the lock"""
    m = ABT(cx)
    prog = cx.prog
    # who calls BaseTime::update
    callers = {cs.fn.name for cs in prog.callers_of(m.slot_update.name)}
    cx.check(callers == {m.publisher.name}, 'slot-writer', m.slot_update, None, 'BaseTime::update is called only from %s' % short(m.publisher.name),
             fail_detail='BaseTime::update called from %s' % sorted(callers))
    # slot atomics stored only in BaseTime::update
    bad = []
    for f in prog.fns.values():
        for cs in f.calls():
            if m.atomic_op(cs) not in (None, 'load', 'new') and m.atomic_field(cs) in m.slot_fields and f is not m.slot_update:
                bad.append(cs)
    cx.check(not bad, 'slot-stores', m.slot_update, None, 'slot atomics are stored only in BaseTime::update', fail_detail='slot store elsewhere: %s' % bad)
    pcallers = prog.callers_of(m.publisher.name)
    names = sorted({cs.fn.name for cs in pcallers})
    cx.check(set(names) == {m.update.name, m.try_update.name}, 'publisher-callers', m.publisher, None,
             'the publisher is called only from update and try_update', fail_detail='publisher called from %s' % names)
    for cs in pcallers:
        cx.count_sites()
        tok = None
        for i in range(cs.nargs()):
            a = cs.arg(i)
            if 'WriteToken' in cs.fn.locals[cs.t['args'][i]['pl']['l']] if cs.t['args'][i]['k'] in ('copy', 'move') else False:
                tok = a
        ok = False
        if tok is not None:
            for d in tok.calls('DerefMut>::deref_mut'):
                g = d.args[0]
                for l in list(g.calls('Mutex::lock')) + list(g.calls('Mutex::try_lock')):
                    if is_param_field(l.args[0], m.lock):
                        ok = True
        cx.check(ok, 'token-from-guard', cs.fn, cs.loc(), 'the &mut WriteToken is borrowed from a MutexGuard of self.%s: %s' % (m.lock, show(tok) if tok else '?'),
                 fail_detail='the WriteToken passed to the publisher does not come from a guard of self.%s: %s' % (m.lock, show(tok) if tok else 'no token argument'))
    # the blocking update always publishes: every way out of update() goes through the publisher (a poisoned lock
    # is cleared and retried, not an excuse to drop the update)
    up = m.update
    pubs = [c.bb for c in up.calls(m.publisher.name)]
    skip = up.path(0, up.returns(), cut_blocks=pubs) if pubs else [0]
    cx.check(bool(pubs) and skip is None, 'update-always-publishes', up, None, 'every return of update() follows a call of the publisher',
             fail_detail='update() can return without having called %s: a completed update is silently dropped (%s)' % (short(m.publisher.name), up.show_path(skip) if skip else ''))
    # WriteToken constructed only in new
    mk = []
    for f in prog.fns.values():
        for pos, st in f.statements():
            if st['k'] == 'assign' and st['rv']['k'] == 'agg' and st['rv']['name'].endswith('::WriteToken'):
                mk.append(f.name)
    cx.check(set(mk) <= {m.new.name} and mk, 'token-forge', m.new, None, 'WriteToken is constructed only in AtomicBaseTime::new',
             fail_detail='WriteToken constructed in %s' % sorted(set(mk)))
    pub = [f for f in m.adt['variants'][0]['fields'] + m.slot_adt['variants'][0]['fields'] if f['vis'].startswith('Public')]
    cx.check(not pub, 'fields-private', None, '%s:%s' % (m.adt['file'], m.adt['line']), 'all fields of AtomicBaseTime and BaseTime are private',
             fail_detail='public field(s): %s' % [f['n'] for f in pub])


def r13_6(cx):
    """pairs stay pairs: update asserts the voucher check before storing both halves; snapshot asserts it before returning"""
    m = ABT(cx)
    fn = m.slot_update
    stores = [cs for cs in fn.calls() if m.atomic_op(cs) == 'store']
    cx.require(len(stores) == 2, 'BaseTime::update no longer has exactly two stores')
    for cs in stores:
        cx.count_sites()
        ok = False
        for e, val, edge in fn.facts_at(cs.bb):
            if val is True and is_call(e, 'CheckingParameters::check') and named_const(e.strip().args[0], 'BASE_TIME_CHECK'):
                a1, a2 = e.strip().args[1].strip(), e.strip().args[2].strip()
                if a1.kind == 'param' and a2.kind == 'param':
                    v = cs.arg(1).strip()
                    field = m.atomic_field(cs)
                    if v.kind == 'param' and v.info['i'] in (a1.info['i'], a2.info['i']):
                        ok = True
        cx.check(ok, 'checked-store:' + str(m.atomic_field(cs)), fn, cs.loc(), 'store of a half of the pair that passed BASE_TIME_CHECK.check',
                 fail_detail='slot store not dominated by the voucher check of the same arguments')
    vals = sorted(show(cs.arg(1).strip()) for cs in stores)
    cx.check(len(set(vals)) == 2, 'two-halves', fn, None, 'the two stores take the two different arguments: %s' % vals,
             fail_detail='both stores take the same argument: %s' % vals)
    sn = m.snapshot
    for rb in sn.returns():
        ok = False
        for e, val, edge in sn.facts_at(rb):
            if val is True and is_call(e, 'CheckingParameters::check') and named_const(e.strip().args[0], 'BASE_TIME_CHECK'):
                ok = True
        cx.check(ok, 'checked-return', sn, sn.loc(rb), 'snapshot returns only after BASE_TIME_CHECK.check(base, voucher) held',
                 fail_detail='snapshot can return a pair that was not checked')


RULES = [('R13.1', r13_1), ('R13.2', r13_2), ('R13.3', r13_3), ('R13.4', r13_4), ('R13.5', r13_5), ('R13.6', r13_6)]
