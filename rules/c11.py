"""C11 — Rough TLV encoder: limits, stable sort on the little-endian tag value, section order, stored length."""
import collections
from .util import *  # noqa: F401,F403
from engine.woodlint.db import E, Pos, as_relation, show

PROPERTY = 'C11'

EXPLANATION = """
Static analysis of rough_tlv::encoder (+ Tag ordering in lib.rs).  Decided: (R11.1) limits: compute_len returns
TooManyElements exactly on len > i32::MAX, ValueTooLarge on encoded_len > i32::MAX, TotalTooLarge on
total > i32::MAX and Ok(total) on the complementary edge (constant, operator and polarity checked: a `>=` here
cannot be tested without a 2 GiB input); every accumulation into the running totals is saturating and the
header terms are 4 + 4*(n-1) + 4*n; new_from_sorted rejects exactly on cur.0 > next.0 over all adjacent pairs
(zip(iter(), iter().skip(1)).enumerate()); (R11.2) ties keep insertion order: new / new_from_slice sort with
the stable sort_by_key on the tag, never an unstable sort; Ord for Tag compares u32::from_le_bytes values and
PartialOrd delegates to it; (R11.3) section order: in encode the sink receives the pair count, then the
offsets, then the tags, then the values, strictly in that order on every path; the count is
elements.len() as u32 little-endian; every offset written is the running sum before adding the current
length, written on every iteration but the first with no other condition, the running sum is
sum.saturating_add(len) and the first length only seeds it; tags are the raw tag bytes and values are the
values' own encodings, all iterating over the same elements; (R11.4) every constructor stores len =
compute_len(the very elements it keeps) and rough_tlv_len returns that field, to_rough_tlv is encode.
NOT decided: round trip through MessageView (value-level).
"""

ASSUMPTIONS = ['slice::sort_by_key is stable', 'ToRoughTLV impls of the leaf types write exactly rough_tlv_len() bytes']

FLOORS = {'R11.1': 12, 'R11.2': 5, 'R11.3': 10, 'R11.4': 5, 'R11.5': 6}

from engine.woodlint.linear import int_range  # noqa: E402

MW = 'rough_tlv::encoder::MessageWrapper'
I32MAX = 2**31 - 1


def _err_sites(fn, adt_suffix):
    out = {}
    for pos, st in fn.statements():
        if st['k'] == 'assign' and st['rv']['k'] == 'agg' and st['rv']['name'].endswith(adt_suffix):
            out.setdefault(st['rv']['variant'], []).append(pos)
    return out


def _is_i32max(e):
    return e.is_const_int(I32MAX)


def r11_1(cx):
    """limits: the three size errors on `> i32::MAX`, saturating accumulation, header terms, adjacent-pair order check"""
    prog = cx.prog
    fn = prog.fn(MW + '::compute_len')
    errs = _err_sites(fn, 'encoder::EncodingError')

    def lens(e):
        e = e.strip()
        return is_call(e, 'len') and e.args[0].strip().kind == 'param'

    def enc_len(e):
        e = e.strip()
        # the length of the current value: an item of elements.iter().map(|x| x.1.rough_tlv_len()).enumerate(), or
        # rough_tlv_len() called on the value of an item of elements.iter().enumerate()
        if is_call(e, 'ToRoughTLV::rough_tlv_len') and e.has_call('Iterator>::next') and e.has_call('enumerate'):
            return field_path(e.args[0])[1][-1:] == ['1']
        return e.kind == 'proj' and e.has_call('Iterator>::next') and e.has_call('enumerate')
    preds = {
        'TooManyElements': (lambda r: r[0] == 'Gt' and lens(r[1]) and _is_i32max(r[2]), 'elements.len() > i32::MAX'),
        'ValueTooLarge': (lambda r: r[0] == 'Gt' and enc_len(r[1]) and _is_i32max(r[2]), 'encoded_len > i32::MAX'),
        # (the total compared is the one that includes the header terms, not the sum of the values alone)
        'TotalTooLarge': (lambda r: r[0] == 'Gt' and _is_i32max(r[2]) and any(c.op.endswith('saturating_add') for c in r[1].calls())
                          and any(c.op.endswith('saturating_mul') for c in r[1].calls()), 'header + values > i32::MAX'),
    }
    def narrowed(e):
        # the quantity tested against the limit went through a type that cannot hold every usize: `total as u32 > MAX`
        # accepts totals of 2^32 and more whose low bits are small
        return [n.info.get('ty') for n in e.walk() if n.kind == 'cast' and n.info.get('ck') == 'IntToInt' and (int_range(n.info.get('ty')) or (0, 2**64))[1] < 2**63 - 1]
    for v, (pred, what) in preds.items():
        cx.count_sites()
        if len(errs.get(v, [])) != 1:
            cx.fail('limit:' + v, fn, None, '%d sites build EncodingError::%s' % (len(errs.get(v, [])), v))
            continue
        pos = errs[v][0]
        rels = [as_relation((e, val)) for e, val, ed in fn.facts_at(pos.bb)]
        rels = [r for r in rels if r]
        nar = [t for r in rels if pred(r) for t in narrowed(r[1])]
        cx.check(not nar, 'limit-unnarrowed:' + v, fn, fn.loc(pos.bb), 'the quantity compared with the limit is the full-width one',
                 fail_detail='the value compared with i32::MAX was first cast to %s: sizes of 2^32 and more wrap around and pass the limit' % nar)
        cx.check(any(pred(r) for r in rels), 'limit:' + v, fn, fn.loc(pos.bb), '%s => Err(%s)' % (what, v),
                 fail_detail='Err(%s) is built under %s, expected %s' % (v, [(r[0], show(r[1])[:50], show(r[2])[:20]) for r in rels], what))
    oks = [pos for pos, st in fn.statements() if st['k'] == 'assign' and st['pl']['l'] == 0 and st['rv']['k'] == 'agg' and st['rv']['variant'] == 'Ok']
    ok = len(oks) == 1
    if ok:
        rels = [as_relation((e, val)) for e, val, ed in fn.facts_at(oks[0].bb)]
        rels = [r for r in rels if r]
        ok = any(r[0] == 'Le' and lens(r[1]) and _is_i32max(r[2]) for r in rels) and \
            any(r[0] == 'Le' and _is_i32max(r[2]) and any(c.op.endswith('saturating_add') for c in r[1].calls())
                and any(c.op.endswith('saturating_mul') for c in r[1].calls()) for r in rels)
    cx.check(ok, 'ok-within-limits', fn, None, 'Ok(total) only where len <= i32::MAX and total <= i32::MAX', fail_detail='Ok can be returned beyond a limit')
    # the per-value check dominates the accumulation of that value
    acc = [cs for cs in fn.calls('saturating_add') if any(enc_len(a) for a in cs.args())]
    okv = len(acc) == 1 and any((r := as_relation((e, val))) and r[0] == 'Le' and enc_len(r[1]) and _is_i32max(r[2]) for e, val, ed in fn.facts_at(acc[0].bb))
    cx.check(okv, 'value-checked-before-added', fn, acc[0].loc() if acc else None, 'a value length is added only after passing the per-value limit',
             fail_detail='value lengths are accumulated without the per-value check')
    # arithmetic: only saturating ops (plus the constant 0 + 4)
    bad = []
    for pos, st in fn.statements():
        if st['k'] == 'assign' and st['rv']['k'] == 'binop' and st['rv']['op'].replace('WithOverflow', '') in ('Add', 'Sub', 'Mul', 'Shl'):
            a, b = fn.operand_expr(st['rv']['a']), fn.operand_expr(st['rv']['b'])
            l = st['rv']['a']['pl']['l'] if st['rv']['a']['k'] in ('copy', 'move') else None
            rd = fn.reaching_defs(l, pos) if l is not None else []
            init = len(rd) == 1 and rd[0][0] == 'assign' and fn.rvalue_expr(fn.blocks[rd[0][1].bb]['st'][rd[0][1].idx]['rv']).is_const_int(0)
            if not (init and b.is_const_int(4)):
                bad.append('%s at %s' % (st['rv']['op'], fn.loc(pos.bb, pos.idx)))
    for cs in fn.calls():
        last = cs.callee.rsplit('::', 1)[-1]
        if last.startswith(('wrapping_', 'overflowing_', 'unchecked_', 'checked_')) and ('usize' in cs.callee or 'u32' in cs.callee or 'u64' in cs.callee):
            bad.append('%s at %s' % (last, cs.loc()))
    cx.check(not bad, 'saturating-only', fn, None, 'all sums use saturating_add / saturating_mul (the only plain op is 0 + 4)',
             fail_detail='non-saturating arithmetic in compute_len: %s' % bad)
    # header terms
    sm = [cs for cs in fn.calls('saturating_mul')]
    terms = sorted(show(cs.arg(0).strip())[:60] + '*' + str(cs.arg(1).const_int()) for cs in sm)
    okh = len(sm) == 2 and all(cs.arg(1).is_const_int(4) for cs in sm) and \
        any(is_call(cs.arg(0), 'saturating_sub') and lens(cs.arg(0).strip().args[0]) and cs.arg(0).strip().args[1].is_const_int(1) for cs in sm) and \
        any(lens(cs.arg(0)) for cs in sm)
    cx.check(okh, 'header-terms', fn, None, 'header = 4 + 4*(n-1) + 4*n', fail_detail='header terms are %s' % terms)
    # new_from_sorted
    ns = prog.fn(MW + '::new_from_sorted')
    errs = _err_sites(ns, 'encoder::EncodingError')
    okn = len(errs.get('NonMonotonicTags', [])) == 1
    if okn:
        pos = errs['NonMonotonicTags'][0]
        rels = [as_relation((e, val)) for e, val, ed in ns.facts_at(pos.bb) if e.kind == 'call']
        rels = [r for r in rels if r]
        okn = len(rels) == 1 and rels[0][0] == 'Gt'
    cx.check(okn, 'sorted:strict-gt', ns, None, 'rejects exactly where cur.0 > next.0 (equal tags allowed)', fail_detail='new_from_sorted does not reject on a strict `>` between neighbours')
    nx = [cs for cs in ns.calls('Iterator>::next')]
    oki = False
    if len(nx) == 1:
        it = nx[0].arg(0)
        z = [c for c in it.calls('Iterator::zip')]
        if len(z) == 1:
            l, r = z[0].args[0].strip(), z[0].args[1].strip()
            oki = is_call(l, 'iter') and l.args[0].strip().kind == 'param' and is_call(r, 'Iterator::skip') and r.args[1].is_const_int(1) and \
                is_call(r.args[0], 'iter') and r.args[0].strip().args[0].strip().kind == 'param' and it.has_call('enumerate')
        # nothing else in the chain (a `.skip(1)`, `.take(n)`, `.step_by(2)`, `.rev()`, `.filter(..)` wrapped round it scans fewer pairs)
        chain = collections.Counter(c.op.rsplit('::', 1)[-1] for c in it.walk() if c.kind == 'call')
        extra = {k: v for k, v in chain.items() if k not in ('into_iter', 'enumerate', 'zip', 'iter', 'skip', 'windows', 'deref', 'as_slice')}
        oki = oki and not extra and chain['skip'] == 1 and chain['zip'] == 1 and chain['enumerate'] == 1 and chain['iter'] == 2
        w = [c for c in it.calls('windows')]
        if not oki and not extra and chain['skip'] == 0 and chain['zip'] == 0 and chain['enumerate'] == 1 and chain['windows'] == 1 and len(w) == 1 and len(w[0].args) == 2 and w[0].args[0].strip().kind == 'param' and w[0].args[1].is_const_int(2) and okn:
            # `for (idx, pair) in elements.windows(2).enumerate()` comparing pair[0].0 with pair[1].0
            def _tag_of_pair(e):
                e = e.strip()
                if e.kind != 'proj' or e.op != 'field' or e.info.get('i') != 0:
                    return None
                ix = e.a.strip()
                if ix.kind != 'proj' or ix.op != 'index' or not isinstance(ix.b, E) or ix.b.const_int() is None:
                    return None
                return ix.b.const_int() if any(c.pos == nx[0].pos for c in ix.a.calls('Iterator>::next')) else None
            oki = it.has_call('enumerate') and (_tag_of_pair(rels[0][1]), _tag_of_pair(rels[0][2])) == (0, 1)
    cx.check(oki, 'sorted:all-adjacent-pairs', ns, nx[0].loc() if nx else None, 'scans elements.iter().zip(elements.iter().skip(1)).enumerate()',
             fail_detail='new_from_sorted does not compare every adjacent pair')
    okr = False
    for cs in ns.calls(MW + '::compute_len'):
        # compute_len only after the scan completed: dominated by the None edge of the iterator
        okr = any(e.kind == 'discr' and val == ('in', frozenset([0])) and e.has_call('Iterator>::next') for e, val, ed in ns.facts_at(cs.bb))
    cx.check(okr, 'sorted:accept-after-full-scan', ns, None, 'accepts only after the whole scan found no descent', fail_detail='new_from_sorted can accept before finishing the scan')


def r11_2(cx):
    """ties keep insertion order: stable sort by tag; Tag order = little-endian u32 value"""
    prog = cx.prog
    for nm in ('new', 'new_from_slice'):
        fn = prog.fn(MW + '::' + nm)
        sorts = [cs for cs in fn.calls() if cs.callee.rsplit('::', 1)[-1].startswith('sort')]
        cx.count_sites()
        ok = len(sorts) == 1 and sorts[0].callee.rsplit('::', 1)[-1] in ('sort_by_key', 'sort_by', 'sort_by_cached_key', 'sort') and 'unstable' not in sorts[0].callee
        cx.check(ok, 'stable-sort:' + nm, fn, sorts[0].loc() if sorts else None, 'sorts with %s (stable)' % (short(sorts[0].callee) if sorts else '?'),
                 fail_detail='%s sorts with %s: equal tags may be permuted' % (nm, [short(c.callee) for c in sorts]))
        cls = prog.closures_of(fn)
        okk = len(cls) == 1
        if okk:
            r = cls[0].local_expr(0, []).strip()
            root, path = field_path(r)
            okk = root.kind == 'param' and path == ['0']
        cx.check(okk, 'sort-key:' + nm, fn, None, 'the sort key is the tag (x.0)', fail_detail='the sort key is not the tag')
        # sort before compute_len and before the entries are stored
        cl = list(fn.calls(MW + '::compute_len'))
        cx.check(bool(sorts) and bool(cl) and fn.pos_dominates(sorts[0].pos, cl[0].pos), 'sort-first:' + nm, fn, None, 'sorted before measured and stored',
                 fail_detail='elements are not sorted before use')
    tag_order(cx)


def tag_order(cx):
    """the order of Tag (which the encoder sorts by and the decoder validates and searches with) is the order of the little-endian u32 value"""
    prog = cx.prog
    cmpf = prog.fn('<rough_tlv::Tag as std::cmp::Ord>::cmp')
    r = cmpf.local_expr(0, []).strip()
    okc = r.kind == 'call' and r.op.endswith('::cmp') and len(r.args) == 2 and all(a.has_call('Tag::value') for a in r.args)
    a0 = [c for c in r.args[0].calls('Tag::value')] if okc else []
    a1 = [c for c in r.args[1].calls('Tag::value')] if okc else []
    okc = okc and a0 and a1 and a0[0].args[0].strip().kind == 'param' and a1[0].args[0].strip().kind == 'param' and \
        a0[0].args[0].strip().info['i'] == 1 and a1[0].args[0].strip().info['i'] == 2
    cx.check(okc, 'tag-ord', cmpf, None, 'Tag::cmp = self.value().cmp(&other.value())', fail_detail='Tag ordering is %s' % show(r)[:120])
    val = prog.fn('rough_tlv::Tag::value')
    rv = val.local_expr(0, []).strip()
    cx.check(is_call(rv, 'from_le_bytes') and is_param_field(rv.args[0], 'bytes'), 'tag-value', val, None, 'Tag::value = u32::from_le_bytes(self.bytes)',
             fail_detail='Tag::value is %s' % show(rv)[:100])
    pc = prog.fn('<rough_tlv::Tag as std::cmp::PartialOrd>::partial_cmp')
    rp = pc.local_expr(0, []).strip()
    cx.check(rp.kind == 'agg' and rp.info.get('variant') == 'Some' and is_call(rp.args[0], 'Ord>::cmp'), 'tag-partial-ord', pc, None, 'partial_cmp = Some(cmp)',
             fail_detail='Tag::partial_cmp is %s' % show(rp)[:100])


def _sink_calls(fn):
    out = []
    for cs in fn.calls():
        if cs.callee.endswith('ZeroCopySink::append_copy') or cs.callee.endswith('ZeroCopySink::append_borrow') or cs.callee.endswith('ToRoughTLV::to_rough_tlv'):
            out.append(cs)
    return out


def _elements_iter(e):
    """the iterator expression runs over the message's elements (either Entries variant)"""
    its = [c for c in e.calls('iter')]
    # every adaptor between the slice and `next` keeps every element, in order: a `.take(n)`, `.skip(k)`, `.rev()`,
    # `.filter(..)`, `.step_by(..)` or a sub-slice `elements[..n]` writes a section that is not the whole message
    keeps_all = ('iter', 'into_iter', 'map', 'deref', 'as_slice', 'as_ref', 'borrow', 'enumerate', 'copied', 'cloned', 'by_ref', 'peekable')
    if any(c.kind == 'call' and c.op.rsplit('::', 1)[-1] not in keeps_all for c in e.walk()):
        return False
    return bool(its) and all(any(n.kind == 'proj' and n.info.get('n') == 'entries' for n in c.args[0].walk()) for c in its)


def r11_3(cx):
    """section order and contents: count, offsets (running sums, all but the first), tags, values"""
    prog = cx.prog
    fn = prog.fn(MW + '::encode')
    sc = _sink_calls(fn)
    cx.check(len(sc) == 4, 'four-sections', fn, None, '4 sink call sites', fail_detail='%d sink call sites in encode' % len(sc))
    if len(sc) != 4:
        return
    # classify
    count = offs = tags = vals = None
    for cs in sc:
        if cs.callee.endswith('to_rough_tlv'):
            vals = cs
            continue
        a = cs.arg(1)
        if a.has_call('to_le_bytes') and any(is_call(x, 'len') for x in a.walk()) and not a.has_call('Iterator>::next'):
            count = cs
        elif a.has_call('to_le_bytes'):
            offs = cs
        else:
            tags = cs
    cx.check(all(x is not None for x in (count, offs, tags, vals)), 'sections-identified', fn, None, 'count / offsets / tags / values call sites identified',
             fail_detail='cannot classify the four sink calls')
    if not all(x is not None for x in (count, offs, tags, vals)):
        return
    order = [count, offs, tags, vals]
    names = ['count', 'offsets', 'tags', 'values']
    for i in range(4):
        for j in range(i):
            # no path from a later section back to an earlier one
            back = order[j].bb in fn.reachable(order[i].next_bb())
            cx.count_paths()
            cx.check(not back, 'order:%s-before-%s' % (names[j], names[i]), fn, order[i].loc(), 'after %s is written, %s is never written' % (names[i], names[j]),
                     fail_detail='%s can be written after %s' % (names[j], names[i]))
    cx.check(all(fn.pos_dominates(count.pos, c.pos) for c in order[1:]), 'count-first', fn, count.loc(), 'the pair count is written before everything else',
             fail_detail='something can be written before the pair count')
    # count value
    a = count.arg(1)
    okc = any(is_call(x, 'to_le_bytes') and x.strip().args[0].strip().kind == 'call' and x.strip().args[0].strip().op.endswith('::len') for x in a.walk() if x.kind == 'call' and x.op.endswith('to_le_bytes'))
    cx.check(okc, 'count-value', fn, count.loc(), '(elements.len() as u32).to_le_bytes()', fail_detail='the count written is %s' % show(a)[:100])
    # every integer conversion on the way to the sink keeps 32 bits: the count and the lengths are below 2^31 (R11.1), so
    # `as u32` is exact, while a detour through a narrower type (`as u8 as u32`) truncates counts / lengths of 256 and more
    narrow = []
    ncast = 0
    for f in [fn] + list(prog.closures_of(fn)):
        for pos, st in f.statements():
            if st['k'] == 'assign' and st['rv']['k'] == 'cast' and st['rv']['ck'] == 'IntToInt':
                ncast += 1
                rd = int_range(st['rv']['ty'])
                if not rd or rd[1] < 2**31 - 1:
                    narrow.append('as %s at %s' % (st['rv']['ty'], f.loc(pos.bb, pos.idx)))
    cx.check(ncast >= 3 and not narrow, 'casts-keep-32-bits', fn, None, '%d integer casts in encode, each to a type that holds every value up to i32::MAX' % ncast,
             fail_detail='the count or a length passes through a type narrower than 32 bits (%s): values of 256 / 65536 and more are truncated in the header' % narrow)
    # (the accumulator is an Option<u32> or any private two-variant enum with one empty and one u32-carrying variant)
    def _empty_index(st):
        if st['rv']['variant'] == 'Some':
            return 0
        a = prog.adts.get(st['rv']['name']) or next((x for x in prog.adts.values() if x['name'] == st['rv']['name']), None)
        if not a or len(a['variants']) != 2:
            return None
        empties = [i for i, v in enumerate(a['variants']) if not v['fields']]
        return empties[0] if len(empties) == 1 and a['variants'][1 - empties[0]]['name'] == st['rv']['variant'] else None
    seeds = [pos for pos, st in fn.statements() if st['k'] == 'assign' and st['rv']['k'] == 'agg' and len(st['rv']['ops']) == 1 and _empty_index(st) is not None and
             fn.rvalue_expr(st['rv']).strip().args[0].strip().kind == 'proj' and fn.rvalue_expr(st['rv']).has_call('Iterator>::next')
             and not fn.rvalue_expr(st['rv']).has_call('saturating_add')]
    empty = _empty_index(fn.blocks[seeds[0].bb]['st'][seeds[0].idx]) if len(seeds) == 1 else 0
    # offsets: guarded only by acc == Some and the per-length assertion
    facts = fn.facts_at(offs.bb)
    rel_guards = [as_relation((e, v)) for e, v, ed in facts]
    rel_guards = [r for r in rel_guards if r]
    allowed = [r for r in rel_guards if r[0] == 'Le' and r[2].is_const_int(I32MAX)]
    extra = [r for r in rel_guards if r not in allowed]
    acc_some = [1 for e, v, ed in facts if e.kind == 'discr' and v == ('in', frozenset([1 - (empty or 0)])) and e.a.strip().kind in ('phi', 'agg', 'local')]
    cx.check(not extra and acc_some, 'offsets:every-but-first', fn, offs.loc(), 'an offset is written on every iteration where the accumulator is Some, with no other condition',
             fail_detail='the offset write is conditional on %s (zero offsets of leading empty values would be dropped)' % [(r[0], show(r[1])[:40], show(r[2])[:20]) for r in extra])
    wv = [x for x in offs.arg(1).walk() if x.kind == 'call' and x.op.endswith('to_le_bytes')]
    okw = len(wv) == 1 and wv[0].args[0].strip().kind == 'proj' and not wv[0].args[0].has_call('saturating_add') or \
        (len(wv) == 1 and all(not is_call(alt, 'saturating_add') for alt in phi_alts(wv[0].args[0])))
    if not okw and len(wv) == 1:
        # the accumulator's payload read through: a sum among its values is the one made *after* this write (it comes
        # round the loop from the previous iteration), never one made before the write in the same iteration
        sums = [alt.strip() for alt in phi_alts(wv[0].args[0]) if is_call(alt, 'saturating_add')]
        okw = bool(sums) and all(a.pos is not None and fn.pos_dominates(offs.pos, a.pos) and a.pos.bb != offs.bb for a in sums)
    cx.check(okw, 'offsets:sum-before-add', fn, offs.loc(), 'the value written is the running sum before the current length is added',
             fail_detail='the offset written already includes the current value')
    sa = [cs for cs in fn.calls('saturating_add')]
    oks = len(sa) == 1 and fn.pos_dominates(offs.pos, sa[0].pos) and sa[0].arg(1).has_call('Iterator>::next')
    cx.check(oks, 'offsets:accumulate', fn, sa[0].loc() if sa else None, 'sum := sum.saturating_add(len) after writing', fail_detail='the running sum is not sum + current length')
    # first iteration seeds
    okf = len(seeds) == 1 and any(e.kind == 'discr' and v == ('in', frozenset([empty])) and e.a.strip().kind in ('phi', 'agg', 'local') for e, v, ed in fn.facts_at(seeds[0].bb)) \
        and offs.bb not in fn.reachable(seeds[0].bb, cut_blocks=[h for h in fn.loop_headers()])
    cx.check(okf, 'offsets:first-seeds', fn, None, 'the first length only seeds the accumulator (nothing written)', fail_detail='the first length is not handled as the silent seed')
    # iterators run over the same elements
    for nm, cs in (('offsets', offs), ('tags', tags), ('values', vals)):
        src = cs.arg(1) if nm != 'values' else cs.arg(0)
        nxt = [c for c in src.calls('Iterator>::next')]
        ok = bool(nxt) and _elements_iter(nxt[0].args[0]) if nxt else False
        if nm == 'offsets':
            ok = ok or any(_elements_iter(c.args[0]) for c in fn.calls('Iterator>::next'))
        cx.check(ok, 'iterates-elements:' + nm, fn, cs.loc(), '%s come from iterating the message elements' % nm, fail_detail='%s do not come from the message elements' % nm)
    root, path = field_path(tags.arg(1))
    cx.check('bytes' in path, 'tags-raw', fn, tags.loc(), 'tags written as tag.bytes', fail_detail='the tag written is %s' % show(tags.arg(1))[:80])
    root, path = field_path(vals.arg(0))
    cx.check(path[-1:] == ['1'], 'values-own-encoding', fn, vals.loc(), 'values written by their own to_rough_tlv', fail_detail='the value written is %s' % show(vals.arg(0))[:80])
    lc = prog.closures_of(fn)
    okl = len(lc) == 1 and is_call(lc[0].local_expr(0, []), 'ToRoughTLV::rough_tlv_len') and field_path(lc[0].local_expr(0, []).strip().args[0])[1][-1:] == ['1']
    cx.check(okl, 'lengths-from-values', fn, None, 'offsets are computed from x.1.rough_tlv_len()', fail_detail='the offset lengths do not come from the values\' rough_tlv_len()')


def r11_4(cx):
    """constructors store len = compute_len(the elements they keep); rough_tlv_len returns it; to_rough_tlv is encode"""
    prog = cx.prog
    adt = prog.adt(MW)
    fields = [f['n'] for f in adt['variants'][0]['fields']]
    for nm in ('new', 'new_from_sorted', 'new_from_slice'):
        fn = prog.fn(MW + '::' + nm)
        aggs = [(pos, fn.rvalue_expr(st['rv']).strip()) for pos, st in fn.statements() if st['k'] == 'assign' and st['rv']['k'] == 'agg' and st['rv']['name'] == adt['key']]
        cx.count_sites()
        ok = len(aggs) == 1
        if ok:
            e = aggs[0][1]
            ln, en = e.args[fields.index('len')].strip(), e.args[fields.index('entries')].strip()
            cl = [c for c in ln.calls(MW + '::compute_len')]
            ok = len(cl) == 1 and ln.kind == 'proj' and en.kind == 'agg' and en.args
            if ok:
                src_len = [p.info['i'] for p in cl[0].args[0].walk() if p.kind == 'param']
                src_ent = [p.info['i'] for p in en.args[0].walk() if p.kind == 'param']
                whole = cl[0].args[0].strip()
                whole_ok = whole.kind == 'param' or (is_call(whole, 'Deref>::deref') and whole.args[0].strip().kind == 'param')
                ok = bool(src_len) and set(src_len) == set(src_ent) and whole_ok
        cx.check(ok, 'len-of-kept-elements:' + nm, fn, None, 'len = compute_len(elements)?, entries = the same elements',
                 fail_detail='%s does not store compute_len of the elements it keeps' % nm)
    rl = prog.fn('<rough_tlv::encoder::MessageWrapper<\'src, \'this, Value> as rough_tlv::encoder::ToRoughTLV<\'src>>::rough_tlv_len')
    r = rl.local_expr(0, []).strip()
    cx.check(is_param_field(r, 'len'), 'rough_tlv_len', rl, None, 'rough_tlv_len() = self.len', fail_detail='rough_tlv_len returns %s' % show(r))
    tr = prog.fn('<rough_tlv::encoder::MessageWrapper<\'src, \'this, Value> as rough_tlv::encoder::ToRoughTLV<\'src>>::to_rough_tlv')
    cs = list(tr.calls())
    cx.check(len(cs) == 1 and cs[0].matches(prog.fn(MW + '::encode')), 'to_rough_tlv', tr, None, 'to_rough_tlv = encode', fail_detail='to_rough_tlv does more than encode')


VIEW_CALLS = ('as_bytes', 'deref', 'as_ref', 'borrow', 'as_slice')


def _view_of_self(e):
    """e is the bytes of the first parameter seen through identity views only (as_bytes, deref, ...)"""
    calls = list(e.calls())
    return all(c.op.rsplit('::', 1)[-1] in VIEW_CALLS for c in calls) and e.params() == {1} \
        and not list(e.consts()) and not any(n.kind == 'binop' for n in e.walk())


def r11_5(cx):
    """leaf values: the length a value announces is the length of the bytes it appends (one append of self's bytes per path; wrappers delegate both methods to the same inner value)"""
    prog = cx.prog
    impls = {}
    for f in prog.fns.values():
        if f.crate == 'rough_tlv' and f.kind != 'Closure' and ' as rough_tlv::encoder::ToRoughTLV<' in f.name and 'MessageWrapper' not in f.name:
            impls.setdefault(f.name.rsplit('>::', 1)[0], {})[f.name.rsplit('::', 1)[-1]] = f
    for ty in sorted(impls):
        pair = impls[ty]
        cx.count_sites()
        inst = 'leaf:' + ty.split(' as ')[0].lstrip('<')
        if set(pair) != {'to_rough_tlv', 'rough_tlv_len'}:
            cx.fail(inst, None, None, 'impl does not define both to_rough_tlv and rough_tlv_len: %s' % sorted(pair))
            continue
        to, ln = pair['to_rough_tlv'], pair['rough_tlv_len']
        r = ln.local_expr(0, []).strip()
        apps = [c for c in to.calls() if c.callee.rsplit('::', 1)[-1] in ('append_copy', 'append_borrow')]
        dels = [c for c in to.calls() if c.callee.endswith('::to_rough_tlv')]
        known = {c.pos for c in apps} | {c.pos for c in dels}
        others = [c for c in to.calls() if c.pos not in known and c.callee.rsplit('::', 1)[-1] not in VIEW_CALLS]
        if dels and not apps:
            ok = len(dels) == 1 and not others and r.kind == 'call' and r.op.endswith('::rough_tlv_len') and \
                r.op.rsplit('::', 1)[0] == dels[0].callee.rsplit('::', 1)[0] and show(r.args[0].strip()) == show(dels[0].arg(0).strip()) and _view_of_self(r.args[0]) \
                and dels[0].arg(1).strip().kind == 'param'
            cx.check(ok, inst, to, dels[0].loc(), 'both methods delegate to the same inner value (%s)' % show(dels[0].arg(0))[:50],
                     fail_detail='to_rough_tlv and rough_tlv_len do not delegate to the same inner value: %s vs %s' % (show(dels[0].arg(0))[:60], show(r)[:80]))
            continue
        blocks = [c.bb for c in apps]
        once = bool(apps) and to.path(0, to.returns(), cut_blocks=blocks) is None and \
            all(not (set(blocks) - {b}) & to.reachable(to.succs()[b][0] if to.succs()[b] else b) for b in blocks)
        views = all(_view_of_self(c.arg(1)) and c.arg(0).strip().kind == 'param' and c.arg(0).strip().info['i'] == 2 for c in apps)
        lenok = is_call(r, 'len') and _view_of_self(r.args[0])
        cx.check(once and views and lenok and not others and not dels, inst, to, apps[0].loc() if apps else None,
                 'exactly one append of self\'s bytes on every path; rough_tlv_len = len of the same bytes',
                 fail_detail='once-per-path=%s, appends self\'s bytes=%s, len of self\'s bytes=%s (%s), other calls=%s' % (once, views, lenok, show(r)[:60], [short(c.callee) for c in others]))


def r11_6(cx):
    """what the encoder writes into: a sink whose allocator serves every value size (R17.7) and whose size accounting survives reuse (R3.2); what reads it back: indexed access and tag lookup of the view (R12.1, R12.6)"""
    from . import c17, c03, c12
    compose(cx, [('R17.7', c17.r17_7), ('R3.2', c03.r3_2), ('R12.1', c12.r12_1), ('R12.6', c12.r12_6)])


RULES = [('R11.1', r11_1), ('R11.2', r11_2), ('R11.3', r11_3), ('R11.4', r11_4), ('R11.5', r11_5), ('R11.6', r11_6)]
RULES.append(('R11.7', scan_rule(('rough_tlv::encoder::',))))
FLOORS['R11.7'] = 1
