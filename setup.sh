#!/bin/sh
# Build the fact extractor and warm the dependency caches, from files on disk only.
set -e
cd "$(dirname "$0")"
export CARGO_NET_OFFLINE=true
(cd engine/driver && cargo +nightly build --release --offline)
python3 engine/woodlint/extract.py /repo dev >/dev/null || true
