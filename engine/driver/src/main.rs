#![feature(rustc_private)]
// woodfacts: dump resolved-program facts (MIR, items, consts) as JSON, one file per crate.
extern crate rustc_abi;
extern crate rustc_driver;
extern crate rustc_hir;
extern crate rustc_interface;
extern crate rustc_middle;
extern crate rustc_span;

use rustc_driver::Compilation;
use rustc_hir::def::DefKind;
use rustc_hir::def_id::{DefId, LOCAL_CRATE};
use rustc_interface::interface::Compiler;
use rustc_middle::mir::{
    self, AggregateKind, BinOp, Body, CastKind, Operand, Place, ProjectionElem, Rvalue,
    StatementKind, TerminatorKind,
};
use rustc_middle::ty::print::PrintTraitRefExt;
use rustc_middle::ty::{self, Ty, TyCtxt};
use std::fmt::Write as _;

fn esc(s: &str) -> String {
    let mut o = String::with_capacity(s.len() + 2);
    o.push('"');
    for c in s.chars() {
        match c {
            '"' => o.push_str("\\\""),
            '\\' => o.push_str("\\\\"),
            '\n' => o.push_str("\\n"),
            '\t' => o.push_str("\\t"),
            '\r' => o.push_str("\\r"),
            c if (c as u32) < 0x20 => {
                let _ = write!(o, "\\u{:04x}", c as u32);
            }
            c => o.push(c),
        }
    }
    o.push('"');
    o
}

fn canon(tcx: TyCtxt<'_>, did: DefId) -> String {
    format!(
        "{}{}",
        tcx.crate_name(did.krate),
        tcx.def_path(did).to_string_no_crate_verbose()
    )
}

fn ty_str<'tcx>(ty: Ty<'tcx>) -> String {
    ty::print::with_resolve_crate_name!(ty::print::with_no_trimmed_paths!(format!("{}", ty)))
}

/// Pretty, line-free name: canonical path with `{impl#N}` replaced by the self type / trait.
fn pretty(tcx: TyCtxt<'_>, did: DefId) -> String {
    // walk up parents collecting segments
    let mut segs: Vec<String> = Vec::new();
    let mut cur = did;
    loop {
        let key = tcx.def_key(cur);
        let Some(parent) = key.parent else { break };
        let parent = DefId { krate: cur.krate, index: parent };
        match tcx.def_kind(cur) {
            DefKind::Impl { of_trait } => {
                let self_ty = tcx.type_of(cur).instantiate_identity().skip_norm_wip();
                let st = ty_str(self_ty);
                if of_trait {
                    let tr = tcx.impl_trait_ref(cur).instantiate_identity().skip_norm_wip();
                    let trs = ty::print::with_resolve_crate_name!(ty::print::with_no_trimmed_paths!(format!(
                        "{}",
                        tr.print_only_trait_path()
                    )));
                    segs.push(format!("<{} as {}>", st, trs));
                } else if let ty::Adt(def, _) = self_ty.kind() {
                    // one name per item whatever crate is being compiled: no re-export (visible) paths
                    // outside the standard library
                    let cn = tcx.crate_name(def.did().krate).to_string();
                    if cn == "std" || cn == "core" || cn == "alloc" {
                        segs.push(ty::print::with_resolve_crate_name!(ty::print::with_no_trimmed_paths!(
                            tcx.def_path_str(def.did())
                        )));
                    } else {
                        segs.push(ty::print::with_no_visible_paths!(ty::print::with_resolve_crate_name!(
                            ty::print::with_no_trimmed_paths!(tcx.def_path_str(def.did()))
                        )));
                    }
                } else {
                    segs.push(format!("<{}>", st));
                }
                // an impl's path prefix is irrelevant once we have the self type
                segs.reverse();
                return segs.join("::");
            }
            _ => {
                segs.push(format!("{}", key.disambiguated_data.as_sym(true)));
            }
        }
        cur = parent;
    }
    segs.push(tcx.crate_name(did.krate).to_string());
    segs.reverse();
    segs.join("::")
}

struct Cx<'tcx> {
    tcx: TyCtxt<'tcx>,
}

impl<'tcx> Cx<'tcx> {
    fn place(&self, body: &Body<'tcx>, p: &Place<'tcx>) -> String {
        let tcx = self.tcx;
        let mut s = format!("{{\"l\":{},\"p\":[", p.local.as_usize());
        let mut ty = mir::PlaceTy::from_ty(body.local_decls[p.local].ty);
        let mut first = true;
        for elem in p.projection.iter() {
            if !first {
                s.push(',');
            }
            first = false;
            match elem {
                ProjectionElem::Deref => {
                    let _ = write!(s, "{{\"k\":\"deref\",\"raw\":{},\"of\":{}}}", ty.ty.is_raw_ptr(), esc(&ty_str(ty.ty)));
                }
                ProjectionElem::Field(f, fty) => {
                    let mut name = format!("{}", f.as_usize());
                    let mut adt = String::new();
                    let mut is_union = false;
                    if let ty::Adt(def, _) = ty.ty.kind() {
                        is_union = def.is_union();
                        let v = match ty.variant_index {
                            Some(v) => def.variant(v),
                            None => def.variant(rustc_abi::VariantIdx::from_u32(0)),
                        };
                        if let Some(fd) = v.fields.get(f) {
                            name = fd.name.to_string();
                        }
                        adt = canon(tcx, def.did());
                    }
                    let _ = write!(
                        s,
                        "{{\"k\":\"field\",\"i\":{},\"n\":{},\"adt\":{},\"ty\":{},\"union\":{}}}",
                        f.as_usize(),
                        esc(&name),
                        esc(&adt),
                        esc(&ty_str(fty)),
                        is_union
                    );
                }
                ProjectionElem::Index(l) => {
                    let _ = write!(s, "{{\"k\":\"index\",\"l\":{}}}", l.as_usize());
                }
                ProjectionElem::ConstantIndex { offset, from_end, .. } => {
                    let _ = write!(s, "{{\"k\":\"cindex\",\"o\":{},\"e\":{}}}", offset, from_end);
                }
                ProjectionElem::Subslice { from, to, from_end } => {
                    let _ = write!(s, "{{\"k\":\"subslice\",\"f\":{},\"t\":{},\"e\":{}}}", from, to, from_end);
                }
                ProjectionElem::Downcast(name, v) => {
                    let n = name.map(|n| n.to_string()).unwrap_or_default();
                    let _ = write!(s, "{{\"k\":\"downcast\",\"n\":{},\"v\":{}}}", esc(&n), v.as_u32());
                }
                _ => s.push_str("{\"k\":\"other\"}"),
            }
            ty = ty.projection_ty(tcx, elem);
        }
        s.push_str("]}");
        s
    }

    fn konst(&self, owner: DefId, c: &mir::ConstOperand<'tcx>) -> String {
        let tcx = self.tcx;
        let ty = c.const_.ty();
        let mut s = format!("{{\"k\":\"const\",\"ty\":{}", esc(&ty_str(ty)));
        // function items
        if let ty::FnDef(did, args) = ty.kind() {
            let _ = write!(s, ",\"fn\":{},\"fnp\":{}", esc(&canon(tcx, *did)), esc(&pretty(tcx, *did)));
            let _ = args;
        }
        if let mir::Const::Unevaluated(uv, _) = c.const_ {
            let _ = write!(s, ",\"named\":{}", esc(&canon(tcx, uv.def)));
            if uv.promoted.is_some() {
                s.push_str(",\"promoted\":true");
            }
        }
        let env = ty::TypingEnv::post_analysis(tcx, owner);
        if let mir::Const::Val(mir::ConstValue::Scalar(rustc_middle::mir::interpret::Scalar::Ptr(ptr, _)), _) = c.const_ {
            if let Some(ga) = tcx.try_get_global_alloc(ptr.provenance.alloc_id()) {
                if let rustc_middle::mir::interpret::GlobalAlloc::Static(sdid) = ga {
                    let _ = write!(s, ",\"static\":{},\"staticp\":{}", esc(&canon(tcx, sdid)), esc(&pretty(tcx, sdid)));
                }
            }
        }
        if let mir::Const::Unevaluated(uv, _) = c.const_ {
            if uv.promoted.is_none() {
                let _ = write!(s, ",\"namedp\":{}", esc(&pretty(tcx, uv.def)));
            }
        }
        if ty.is_integral() || ty.is_bool() || ty.is_char() {
            if let Some(si) = c.const_.try_eval_scalar_int(tcx, env) {
                let size = si.size();
                let bits = si.to_bits(size);
                let val: i128 = if ty.is_signed() {
                    size.sign_extend(bits)
                } else {
                    bits as i128
                };
                if ty.is_signed() {
                    let _ = write!(s, ",\"int\":\"{}\"", val);
                } else {
                    let _ = write!(s, ",\"int\":\"{}\"", bits);
                }
            }
        } else if !matches!(ty.kind(), ty::FnDef(..)) && (!c.const_.has_non_region_param_compat() || { use rustc_middle::ty::TypeVisitableExt; !ty.has_non_region_param() }) {
            if let Ok(v) = c.const_.eval(tcx, env, c.span) {
                self.const_value(&mut s, v, ty, env);
            }
        }
        s.push('}');
        s
    }

    fn const_value(&self, s: &mut String, v: mir::ConstValue, ty: Ty<'tcx>, env: ty::TypingEnv<'tcx>) {
        let tcx = self.tcx;
        match v {
            mir::ConstValue::Scalar(sc) => {
                if let Ok(si) = sc.try_to_scalar_int() {
                    let _ = write!(s, ",\"int\":\"{}\"", si.to_bits(si.size()));
                    let bits = si.to_bits(si.size());
                    let nb = si.size().bytes() as usize;
                    let le: Vec<u8> = (0..nb).map(|i| ((bits >> (8 * i)) & 0xff) as u8).collect();
                    if let Some(vn) = enum_variant_name(tcx, ty, &le) {
                        let _ = write!(s, ",\"variant\":{}", esc(&vn));
                    }
                } else if let rustc_middle::mir::interpret::Scalar::Ptr(ptr, _) = sc {
                    // a reference to constant memory: dump the pointee when it is plain bytes
                    if let Some(pointee) = ty.builtin_deref(true) {
                        if let Some(rustc_middle::mir::interpret::GlobalAlloc::Memory(alloc)) =
                            tcx.try_get_global_alloc(ptr.provenance.alloc_id())
                        {
                            if let Ok(layout) = tcx.layout_of(env.as_query_input(pointee)) {
                                let (_, off) = ptr.into_raw_parts();
                                let start = off.bytes() as usize;
                                let end = (start + layout.size.bytes() as usize).min(alloc.inner().len());
                                if alloc.inner().provenance().ptrs().is_empty() && layout.is_sized() {
                                    let bytes = alloc.inner().inspect_with_uninit_and_ptr_outside_interpreter(start..end);
                                    let _ = write!(s, ",\"ref_bytes\":{}", esc(&hex(bytes)));
                                    if let Some(vn) = enum_variant_name(tcx, pointee, bytes) {
                                        let _ = write!(s, ",\"variant\":{}", esc(&vn));
                                    }
                                } else if layout.is_sized() && layout.size == tcx.data_layout.pointer_size() && alloc.inner().provenance().ptrs().len() == 1 {
                                    // the pointee is itself one thin pointer (`&Some(&BYTE)`, `&&X`): dump what that points to
                                    if let Some((poff, prov)) = alloc.inner().provenance().ptrs().iter().next() {
                                        if poff.bytes() as usize == start {
                                            if let Some(rustc_middle::mir::interpret::GlobalAlloc::Memory(inner)) = tcx.try_get_global_alloc(prov.alloc_id()) {
                                                if inner.inner().provenance().ptrs().is_empty() {
                                                    let raw = alloc.inner().inspect_with_uninit_and_ptr_outside_interpreter(start..end);
                                                    let mut off: usize = 0;
                                                    for (i, b) in raw.iter().enumerate() { off |= (*b as usize) << (8 * i); }
                                                    let len = inner.inner().len();
                                                    if off <= len {
                                                        let stop = (off + 64).min(len);
                                                        let bytes = inner.inner().inspect_with_uninit_and_ptr_outside_interpreter(off..stop);
                                                        let _ = write!(s, ",\"ptr_to_bytes\":{}", esc(&hex(bytes)));
                                                    }
                                                }
                                            }
                                        }
                                    }
                                }
                            }
                        }
                    }
                }
            }
            mir::ConstValue::ZeroSized => s.push_str(",\"zst\":true"),
            mir::ConstValue::Slice { alloc_id, meta } => {
                let alloc = tcx.global_alloc(alloc_id).unwrap_memory();
                let bytes = alloc
                    .inner()
                    .inspect_with_uninit_and_ptr_outside_interpreter(0..(meta as usize).min(alloc.inner().len()));
                let _ = write!(s, ",\"bytes\":{}", esc(&hex(bytes)));
            }
            mir::ConstValue::Indirect { alloc_id, offset } => {
                if let Ok(layout) = tcx.layout_of(env.as_query_input(ty)) {
                    let alloc = tcx.global_alloc(alloc_id).unwrap_memory();
                    let start = offset.bytes() as usize;
                    let end = (start + layout.size.bytes() as usize).min(alloc.inner().len());
                    if alloc.inner().provenance().ptrs().is_empty() {
                        let bytes = alloc.inner().inspect_with_uninit_and_ptr_outside_interpreter(start..end);
                        let _ = write!(s, ",\"bytes\":{}", esc(&hex(bytes)));
                    }
                }
            }
        }
    }

    fn operand(&self, owner: DefId, body: &Body<'tcx>, o: &Operand<'tcx>) -> String {
        match o {
            Operand::Copy(p) => format!("{{\"k\":\"copy\",\"pl\":{}}}", self.place(body, p)),
            Operand::Move(p) => format!("{{\"k\":\"move\",\"pl\":{}}}", self.place(body, p)),
            Operand::Constant(c) => self.konst(owner, c),
            _ => "{\"k\":\"other\"}".to_string(),
        }
    }

    fn rvalue(&self, owner: DefId, body: &Body<'tcx>, rv: &Rvalue<'tcx>) -> String {
        let tcx = self.tcx;
        match rv {
            Rvalue::Use(o, ..) => format!("{{\"k\":\"use\",\"o\":{}}}", self.operand(owner, body, o)),
            Rvalue::Ref(_, bk, p) => format!(
                "{{\"k\":\"ref\",\"mut\":{},\"pl\":{}}}",
                matches!(bk, mir::BorrowKind::Mut { .. }),
                self.place(body, p)
            ),
            Rvalue::RawPtr(k, p) => format!(
                "{{\"k\":\"rawptr\",\"mut\":{},\"pl\":{}}}",
                matches!(k, mir::RawPtrKind::Mut),
                self.place(body, p)
            ),
            Rvalue::BinaryOp(op, ops) => format!(
                "{{\"k\":\"binop\",\"op\":{},\"a\":{},\"b\":{}}}",
                esc(&binop(*op)),
                self.operand(owner, body, &ops.0),
                self.operand(owner, body, &ops.1)
            ),
            Rvalue::UnaryOp(op, o) => format!(
                "{{\"k\":\"unop\",\"op\":{},\"a\":{}}}",
                esc(&format!("{:?}", op)),
                self.operand(owner, body, o)
            ),
            Rvalue::Cast(kind, o, ty) => format!(
                "{{\"k\":\"cast\",\"ck\":{},\"o\":{},\"ty\":{}}}",
                esc(&castkind(kind)),
                self.operand(owner, body, o),
                esc(&ty_str(*ty))
            ),
            Rvalue::Discriminant(p) => format!("{{\"k\":\"discr\",\"pl\":{}}}", self.place(body, p)),
            Rvalue::Aggregate(kind, ops) => {
                let (ak, name, variant) = match &**kind {
                    AggregateKind::Array(_) => ("array", String::new(), String::new()),
                    AggregateKind::Tuple => ("tuple", String::new(), String::new()),
                    AggregateKind::Adt(did, vidx, _, _, _) => {
                        let def = tcx.adt_def(*did);
                        ("adt", canon(tcx, *did), def.variant(*vidx).name.to_string())
                    }
                    AggregateKind::Closure(did, _) => ("closure", canon(tcx, *did), String::new()),
                    _ => ("other", String::new(), String::new()),
                };
                let mut s = format!(
                    "{{\"k\":\"agg\",\"ak\":{},\"name\":{},\"variant\":{},\"ops\":[",
                    esc(ak),
                    esc(&name),
                    esc(&variant)
                );
                for (i, o) in ops.iter().enumerate() {
                    if i > 0 {
                        s.push(',');
                    }
                    s.push_str(&self.operand(owner, body, o));
                }
                s.push_str("]}");
                s
            }
            Rvalue::ThreadLocalRef(d) => format!("{{\"k\":\"tlsref\",\"static\":{}}}", esc(&canon(tcx, *d))),
            Rvalue::Repeat(o, _) => format!("{{\"k\":\"repeat\",\"o\":{}}}", self.operand(owner, body, o)),
            Rvalue::CopyForDeref(p) => format!("{{\"k\":\"use\",\"o\":{{\"k\":\"copy\",\"pl\":{}}}}}", self.place(body, p)),
            other => format!("{{\"k\":\"other\",\"dbg\":{}}}", esc(&format!("{:?}", other))),
        }
    }

    fn body(&self, did: DefId, body: &Body<'tcx>) -> String {
        let tcx = self.tcx;
        let sm = tcx.sess.source_map();
        let mut s = String::new();
        s.push_str("\"locals\":[");
        for (i, (_, d)) in body.local_decls.iter_enumerated().enumerate() {
            if i > 0 {
                s.push(',');
            }
            s.push_str(&esc(&ty_str(d.ty)));
        }
        s.push_str("],\"argc\":");
        let _ = write!(s, "{}", body.arg_count);
        s.push_str(",\"debug\":{");
        let mut first = true;
        for vdi in &body.var_debug_info {
            if let mir::VarDebugInfoContents::Place(p) = &vdi.value {
                if p.projection.is_empty() {
                    if !first {
                        s.push(',');
                    }
                    first = false;
                    let _ = write!(s, "{}:{}", esc(&format!("{}#{}", vdi.name, p.local.as_usize())), p.local.as_usize());
                }
            }
        }
        s.push_str("},\"blocks\":[");
        let env = ty::TypingEnv::post_analysis(tcx, did);
        for (bi, (_, data)) in body.basic_blocks.iter_enumerated().enumerate() {
            if bi > 0 {
                s.push(',');
            }
            let _ = write!(s, "{{\"cleanup\":{},\"st\":[", data.is_cleanup);
            let mut firsts = true;
            for st in &data.statements {
                let line = sm.lookup_char_pos(st.source_info.span.lo()).line;
                let t = match &st.kind {
                    StatementKind::Assign(b) => {
                        let (p, rv) = &**b;
                        Some(format!(
                            "{{\"k\":\"assign\",\"line\":{},\"pl\":{},\"rv\":{}}}",
                            line,
                            self.place(body, p),
                            self.rvalue(did, body, rv)
                        ))
                    }
                    StatementKind::SetDiscriminant { place, variant_index } => Some(format!(
                        "{{\"k\":\"setdiscr\",\"line\":{},\"pl\":{},\"v\":{}}}",
                        line,
                        self.place(body, place),
                        variant_index.as_u32()
                    )),
                    _ => None,
                };
                if let Some(t) = t {
                    if !firsts {
                        s.push(',');
                    }
                    firsts = false;
                    s.push_str(&t);
                }
            }
            s.push_str("],\"term\":");
            let term = data.terminator();
            let line = sm.lookup_char_pos(term.source_info.span.lo()).line;
            let exp = term.source_info.span.from_expansion();
            match &term.kind {
                TerminatorKind::Goto { target } => {
                    let _ = write!(s, "{{\"k\":\"goto\",\"t\":{}}}", target.as_usize());
                }
                TerminatorKind::SwitchInt { discr, targets } => {
                    let _ = write!(s, "{{\"k\":\"switch\",\"line\":{},\"d\":{},\"ts\":[", line, self.operand(did, body, discr));
                    for (i, (v, t)) in targets.iter().enumerate() {
                        if i > 0 {
                            s.push(',');
                        }
                        let _ = write!(s, "[\"{}\",{}]", v, t.as_usize());
                    }
                    let _ = write!(s, "],\"o\":{}}}", targets.otherwise().as_usize());
                }
                TerminatorKind::Return => s.push_str("{\"k\":\"return\"}"),
                TerminatorKind::Unreachable => s.push_str("{\"k\":\"unreachable\"}"),
                TerminatorKind::UnwindResume | TerminatorKind::UnwindTerminate(_) => s.push_str("{\"k\":\"resume\"}"),
                TerminatorKind::Drop { place, target, .. } => {
                    let dty = place.ty(body, tcx).ty;
                    let nd = dty.needs_drop(tcx, env);
                    let _ = write!(s, "{{\"k\":\"drop\",\"line\":{},\"pl\":{},\"t\":{},\"ty\":{},\"needs_drop\":{}}}", line, self.place(body, place), target.as_usize(), esc(&ty_str(dty)), nd);
                }
                TerminatorKind::Assert { cond, expected, target, msg, .. } => {
                    let m = format!("{:?}", msg);
                    let mk = m.split(|c: char| !c.is_alphanumeric()).next().unwrap_or("").to_string();
                    let _ = write!(
                        s,
                        "{{\"k\":\"assert\",\"line\":{},\"c\":{},\"e\":{},\"t\":{},\"msg\":{}}}",
                        line,
                        self.operand(did, body, cond),
                        expected,
                        target.as_usize(),
                        esc(&mk)
                    );
                }
                TerminatorKind::Call { func, args, destination, target, .. } => {
                    let fty = func.ty(body, tcx);
                    let mut callee = String::new();
                    let mut calleep = String::new();
                    let mut resolved = String::new();
                    let mut resolvedp = String::new();
                    let mut gen = String::new();
                    let mut unsafe_callee = false;
                    let mut local = false;
                    let mut fnop = String::from("null");
                    if let ty::FnDef(cdid, cargs) = fty.kind() {
                        callee = canon(tcx, *cdid);
                        calleep = pretty(tcx, *cdid);
                        gen = ty::print::with_resolve_crate_name!(ty::print::with_no_trimmed_paths!(format!("{:?}", cargs)));
                        unsafe_callee = tcx.fn_sig(*cdid).skip_binder().safety().is_unsafe();
                        if let Ok(Some(inst)) = ty::Instance::try_resolve(tcx, env, *cdid, cargs) {
                            let rd = inst.def_id();
                            resolved = canon(tcx, rd);
                            resolvedp = pretty(tcx, rd);
                            local = rd.is_local();
                        } else {
                            local = cdid.is_local();
                        }
                    } else {
                        fnop = self.operand(did, body, func);
                    }
                    let _ = write!(
                        s,
                        "{{\"k\":\"call\",\"line\":{},\"exp\":{},\"callee\":{},\"calleep\":{},\"res\":{},\"resp\":{},\"gen\":{},\"unsafe\":{},\"local\":{},\"fnop\":{},\"args\":[",
                        line, exp, esc(&callee), esc(&calleep), esc(&resolved), esc(&resolvedp), esc(&gen), unsafe_callee, local, fnop
                    );
                    for (i, a) in args.iter().enumerate() {
                        if i > 0 {
                            s.push(',');
                        }
                        s.push_str(&self.operand(did, body, &a.node));
                    }
                    let _ = write!(
                        s,
                        "],\"dest\":{},\"t\":{}}}",
                        self.place(body, destination),
                        target.map(|t| t.as_usize() as i64).unwrap_or(-1)
                    );
                }
                other => {
                    let _ = write!(s, "{{\"k\":\"other\",\"dbg\":{}}}", esc(&format!("{:?}", other).chars().take(80).collect::<String>()));
                }
            }
            s.push('}');
        }
        s.push(']');
        s
    }
}


fn enum_variant_name<'tcx>(tcx: TyCtxt<'tcx>, ty: Ty<'tcx>, bytes: &[u8]) -> Option<String> {
    if let ty::Adt(def, _) = ty.kind() {
        if def.is_enum() && !bytes.is_empty() && bytes.len() <= 16 {
            let mut v: u128 = 0;
            for (i, b) in bytes.iter().enumerate() {
                v |= (*b as u128) << (8 * i);
            }
            for (idx, d) in def.discriminants(tcx) {
                let mask: u128 = if bytes.len() == 16 { u128::MAX } else { (1u128 << (8 * bytes.len())) - 1 };
                if (d.val & mask) == v && def.variant(idx).fields.is_empty() {
                    return Some(def.variant(idx).name.to_string());
                }
            }
        }
    }
    None
}

fn hex(b: &[u8]) -> String {
    let mut s = String::with_capacity(b.len() * 2);
    for x in b {
        let _ = write!(s, "{:02x}", x);
    }
    s
}

fn binop(op: BinOp) -> String {
    format!("{:?}", op)
}

fn castkind(k: &CastKind) -> String {
    let d = format!("{:?}", k);
    d.split('(').next().unwrap_or("").to_string()
}

trait HasParamCompat {
    fn has_non_region_param_compat(&self) -> bool;
}
impl<'tcx> HasParamCompat for mir::Const<'tcx> {
    fn has_non_region_param_compat(&self) -> bool {
        use rustc_middle::ty::TypeVisitableExt;
        self.has_non_region_param()
    }
}

struct Cb;

impl rustc_driver::Callbacks for Cb {
    fn after_analysis<'tcx>(&mut self, _c: &Compiler, tcx: TyCtxt<'tcx>) -> Compilation {
        let outdir = match std::env::var("WOODFACTS_OUT") {
            Ok(d) => d,
            Err(_) => return Compilation::Continue,
        };
        let nonce = std::env::var("WOODFACTS_NONCE").unwrap_or_default();
        let crate_name = tcx.crate_name(LOCAL_CRATE).to_string();
        let cx = Cx { tcx };
        let sm = tcx.sess.source_map();
        let mut out = String::new();
        let _ = write!(out, "{{\"crate\":{},\"nonce\":{},\"fns\":[", esc(&crate_name), esc(&nonce));
        let mut first = true;
        let ev = tcx.effective_visibilities(());
        for ldid in tcx.hir_body_owners() {
            let did = ldid.to_def_id();
            let kind = tcx.def_kind(did);
            let is_fn = matches!(kind, DefKind::Fn | DefKind::AssocFn | DefKind::Closure);
            if !is_fn {
                continue;
            }
            let body = tcx.optimized_mir(did);
            if !first {
                out.push(',');
            }
            first = false;
            let span = tcx.def_span(did);
            let lo = sm.lookup_char_pos(span.lo());
            let file = format!("{}", lo.file.name.prefer_local_unconditionally());
            let (unsafe_fn, sig) = if matches!(kind, DefKind::Fn | DefKind::AssocFn) {
                let sig = tcx.fn_sig(did).instantiate_identity().skip_norm_wip();
                (
                    sig.safety().is_unsafe(),
                    ty::print::with_resolve_crate_name!(ty::print::with_no_trimmed_paths!(format!("{}", sig))),
                )
            } else {
                (false, String::new())
            };
            let exported = matches!(kind, DefKind::Fn | DefKind::AssocFn) && ev.is_exported(ldid);
            let vis = if matches!(kind, DefKind::Fn | DefKind::AssocFn) {
                format!("{:?}", tcx.visibility(did))
            } else {
                String::new()
            };
            let derived = tcx.is_automatically_derived(tcx.parent(did));
            let trait_item = if matches!(kind, DefKind::AssocFn) {
                tcx.opt_associated_item(did)
                    .and_then(|a| a.trait_item_def_id())
                    .map(|t| canon(tcx, t))
                    .unwrap_or_default()
            } else {
                String::new()
            };
            let parent_fn = if matches!(kind, DefKind::Closure) { canon(tcx, tcx.typeck_root_def_id(did)) } else { String::new() };
            let _ = write!(out, "{{\"trait_item\":{},\"parent_fn\":{},", esc(&trait_item), esc(&parent_fn));
            let _ = write!(
                out,
                "\"key\":{},\"name\":{},\"kind\":{},\"file\":{},\"line\":{},\"unsafe\":{},\"sig\":{},\"exported\":{},\"vis\":{},\"derived\":{},",
                esc(&canon(tcx, did)),
                esc(&pretty(tcx, did)),
                esc(&format!("{:?}", kind)),
                esc(&file),
                lo.line,
                unsafe_fn,
                esc(&sig),
                exported,
                esc(&vis),
                derived
            );
            out.push_str(&cx.body(did, body));
            out.push('}');
        }
        out.push_str("],\"consts\":[");
        let mut first = true;
        for ldid in tcx.hir_body_owners() {
            let did = ldid.to_def_id();
            let kind = tcx.def_kind(did);
            if !matches!(kind, DefKind::Const { .. } | DefKind::Static { .. } | DefKind::AssocConst { .. }) {
                continue;
            }
            let ty = tcx.type_of(did).instantiate_identity().skip_norm_wip();
            use rustc_middle::ty::TypeVisitableExt;
            if ty.has_non_region_param() {
                continue;
            }
            let env = ty::TypingEnv::fully_monomorphized();
            let mut s = format!(
                "{{\"key\":{},\"name\":{},\"kind\":{},\"ty\":{}",
                esc(&canon(tcx, did)),
                esc(&pretty(tcx, did)),
                esc(&format!("{:?}", kind)),
                esc(&ty_str(ty))
            );
            if matches!(kind, DefKind::Static { .. }) {
                if let Ok(alloc) = tcx.eval_static_initializer(did) {
                    if alloc.inner().provenance().ptrs().is_empty() {
                        let b = alloc.inner().inspect_with_uninit_and_ptr_outside_interpreter(0..alloc.inner().len());
                        let _ = write!(s, ",\"bytes\":{}", esc(&hex(b)));
                    }
                }
            } else if let Ok(v) = tcx.const_eval_poly(did) {
                cx.const_value(&mut s, v, ty, env);
            }
            // field offsets for struct consts
            if let ty::Adt(def, args) = ty.kind() {
                if def.is_struct() {
                    if let Ok(layout) = tcx.layout_of(env.as_query_input(ty)) {
                        s.push_str(",\"fields\":[");
                        for (i, f) in def.non_enum_variant().fields.iter().enumerate() {
                            if i > 0 {
                                s.push(',');
                            }
                            let off = layout.fields.offset(i).bytes();
                            let fty = f.ty(tcx, args);
                            let fsz = tcx.layout_of(env.as_query_input(fty)).map(|l| l.size.bytes()).unwrap_or(0);
                            let _ = write!(s, "{{\"n\":{},\"off\":{},\"size\":{},\"ty\":{}}}", esc(&f.name.to_string()), off, fsz, esc(&ty_str(fty)));
                        }
                        s.push(']');
                    }
                }
            }
            s.push('}');
            if !first {
                out.push(',');
            }
            first = false;
            out.push_str(&s);
        }
        out.push_str("],\"adts\":[");
        let mut first = true;
        for ldid in tcx.hir_crate_items(()).definitions() {
            let did = ldid.to_def_id();
            let kind = tcx.def_kind(did);
            if !matches!(kind, DefKind::Struct | DefKind::Enum | DefKind::Union) {
                continue;
            }
            let def = tcx.adt_def(did);
            if !first {
                out.push(',');
            }
            first = false;
            let span = tcx.def_span(did);
            let lo = sm.lookup_char_pos(span.lo());
            let _ = write!(
                out,
                "{{\"key\":{},\"name\":{},\"kind\":{},\"file\":{},\"line\":{},\"repr\":{},\"exported\":{},\"variants\":[",
                esc(&canon(tcx, did)),
                esc(&pretty(tcx, did)),
                esc(&format!("{:?}", kind)),
                esc(&format!("{}", lo.file.name.prefer_local_unconditionally())),
                lo.line,
                esc(&format!("{:?}", def.repr())),
                ev.is_exported(ldid)
            );
            for (vi, v) in def.variants().iter().enumerate() {
                if vi > 0 {
                    out.push(',');
                }
                let _ = write!(out, "{{\"name\":{},\"fields\":[", esc(&v.name.to_string()));
                for (fi, f) in v.fields.iter().enumerate() {
                    if fi > 0 {
                        out.push(',');
                    }
                    let fty = tcx.type_of(f.did).instantiate_identity().skip_norm_wip();
                    let _ = write!(
                        out,
                        "{{\"n\":{},\"ty\":{},\"vis\":{}}}",
                        esc(&f.name.to_string()),
                        esc(&ty_str(fty)),
                        esc(&format!("{:?}", f.vis))
                    );
                }
                out.push_str("]}");
            }
            out.push(']');
            {
                use rustc_middle::ty::TypeVisitableExt;
                let ty = tcx.type_of(did).instantiate_identity().skip_norm_wip();
                if !ty.has_non_region_param() {
                    let env = ty::TypingEnv::fully_monomorphized();
                    if let Ok(layout) = tcx.layout_of(env.as_query_input(ty)) {
                        let _ = write!(out, ",\"size\":{},\"align\":{}", layout.size.bytes(), layout.align.abi.bytes());
                    }
                }
            }
            out.push('}');
        }
        out.push_str("],\"impls\":[");
        let mut first = true;
        for ldid in tcx.hir_crate_items(()).definitions() {
            let did = ldid.to_def_id();
            let DefKind::Impl { of_trait } = tcx.def_kind(did) else { continue };
            if !first {
                out.push(',');
            }
            first = false;
            let self_ty = tcx.type_of(did).instantiate_identity().skip_norm_wip();
            let span = tcx.def_span(did);
            let lo = sm.lookup_char_pos(span.lo());
            let (tr, is_unsafe, negative) = if of_trait {
                let h = tcx.impl_trait_header(did);
                let tr = h.trait_ref.instantiate_identity().skip_norm_wip();
                (
                    ty::print::with_resolve_crate_name!(ty::print::with_no_trimmed_paths!(format!("{}", tr.print_only_trait_path()))),
                    h.safety.is_unsafe(),
                    matches!(h.polarity, ty::ImplPolarity::Negative),
                )
            } else {
                (String::new(), false, false)
            };
            let _ = write!(
                out,
                "{{\"key\":{},\"self\":{},\"trait\":{},\"unsafe\":{},\"negative\":{},\"derived\":{},\"file\":{},\"line\":{}}}",
                esc(&canon(tcx, did)),
                esc(&ty_str(self_ty)),
                esc(&tr),
                is_unsafe,
                negative,
                tcx.is_automatically_derived(did),
                esc(&format!("{}", lo.file.name.prefer_local_unconditionally())),
                lo.line
            );
        }
        out.push_str("]}");
        let path = format!("{}/{}.json", outdir, crate_name);
        std::fs::write(&path, out).expect("write facts");
        Compilation::Continue
    }
}

fn main() {
    let mut args: Vec<String> = std::env::args().collect();
    // RUSTC_WORKSPACE_WRAPPER: argv[1] is the real rustc path
    args.remove(1);
    rustc_driver::run_compiler(&args, &mut Cb);
}
