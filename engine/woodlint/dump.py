"""Developer aid: print a function's MIR facts readably.  python3 -m engine.woodlint.dump <name-suffix> [profile]"""
import sys

from . import extract
from .db import Program, show, callee_name, short


def op(fn, o):
    if o['k'] in ('copy', 'move'):
        return pl(o['pl'])
    return show(fn.operand_expr(o))


def pl(p):
    s = '_%d' % p['l']
    for x in p['p']:
        if x['k'] == 'deref':
            s = '(*%s)' % s
        elif x['k'] == 'field':
            s += '.' + str(x['n'])
        elif x['k'] == 'index':
            s += '[_%d]' % x['l']
        elif x['k'] == 'downcast':
            s += ' as %s' % x['n']
        else:
            s += '.<%s>' % x['k']
    return s


def rv(fn, r):
    k = r['k']
    if k == 'use':
        return op(fn, r['o'])
    if k in ('ref', 'rawptr'):
        return ('&mut ' if r.get('mut') else '&') + ('raw ' if k == 'rawptr' else '') + pl(r['pl'])
    if k == 'binop':
        return '%s(%s, %s)' % (r['op'], op(fn, r['a']), op(fn, r['b']))
    if k == 'unop':
        return '%s(%s)' % (r['op'], op(fn, r['a']))
    if k == 'cast':
        return '%s as %s [%s]' % (op(fn, r['o']), r['ty'], r['ck'])
    if k == 'discr':
        return 'discr(%s)' % pl(r['pl'])
    if k == 'agg':
        return '%s %s::%s{%s}' % (r['ak'], short(r['name']), r['variant'], ', '.join(op(fn, o) for o in r['ops']))
    return str(r)


def dump(fn):
    print('fn %s  [%s] argc=%d  %s' % (fn.name, fn.key, fn.argc, fn.loc()))
    print('  sig:', fn.d.get('sig'))
    for i, t in enumerate(fn.locals):
        print('  _%d: %s %s' % (i, t, ('// ' + fn.debug[i]) if i in fn.debug else ''))
    live = fn.live_blocks()
    for bi, b in enumerate(fn.blocks):
        if bi not in live:
            continue
        print(' bb%d%s:' % (bi, ' (cleanup)' if b['cleanup'] else ''))
        for st in b['st']:
            if st['k'] == 'assign':
                print('    %s = %s   // L%s' % (pl(st['pl']), rv(fn, st['rv']), st.get('line')))
            else:
                print('    %s' % st)
        t = b['term']
        k = t['k']
        if k == 'call':
            print('    %s = %s(%s) -> bb%s   // L%s%s' % (pl(t['dest']), callee_name(t), ', '.join(op(fn, a) for a in t['args']),
                                                       t['t'], t.get('line'), ' [exp]' if t.get('exp') else ''))
            if t.get('calleep') and t.get('calleep') != callee_name(t):
                print('        (syntactic: %s)' % t['calleep'])
        elif k == 'switch':
            print('    switch %s %s else bb%s   // L%s  :: %s' % (op(fn, t['d']), t['ts'], t['o'], t.get('line'), show(fn.switch_expr(bi))))
        elif k == 'assert':
            print('    assert %s == %s [%s] -> bb%s' % (op(fn, t['c']), t['e'], t['msg'], t['t']))
        elif k == 'drop':
            print('    drop %s : %s -> bb%s' % (pl(t['pl']), t.get('ty'), t['t']))
        elif k == 'goto':
            print('    goto bb%s' % t['t'])
        else:
            print('    %s' % k)


if __name__ == '__main__':
    d, th, info = extract.extract('/repo', sys.argv[2] if len(sys.argv) > 2 else 'dev')
    prog = Program(d)
    for f in prog.find_fns(lambda f: sys.argv[1] in f.name):
        dump(f)
        print()
