"""Normalisation of the extracted program against the reference function table.

The rules name their anchors (functions) the way the reference tree names them.  Two behaviour-preserving
edits would otherwise make a rule report on code where the property holds:

 * renaming a private function: the renamed function is recognised by its body -- a function whose name the
   reference table does not know and whose structural fingerprint (engine.woodlint.skeleton) equals that of
   exactly one function the table knows and the tree no longer has.  Its pretty name is mapped back to the
   reference name everywhere in the facts (definition, call sites, closure parents).  A rename that also
   changes the body is not recognised and the anchor is reported missing (fail closed).

 * extracting part of a function into a new private helper: a function the table does not know, that is
   not exported, not recursive, never used as a function value and only called directly, is spliced back
   into each of its call sites (MIR inlining on the fact level: locals and blocks are renumbered, arguments
   become assignments, `return` becomes an assignment of the destination plus a goto).  Inlining preserves
   behaviour, so every rule sees the same events, guards and paths as before the extraction; the helper is
   then dropped from the program.  Inventory rules therefore attribute the helper's operations to its callers.

Nothing here depends on what a rule wants to prove, and on the reference tree both steps are the identity.
The table (tables/reference_fns.json) is produced by tools/mkreference.py from the reference tree.
"""
import copy
import hashlib
import json
import os
import re

from . import skeleton as skel

TABLE = os.path.join(os.path.dirname(os.path.dirname(os.path.dirname(os.path.abspath(__file__)))), 'tables', 'reference_fns.json')
MAX_ROUNDS = 64


def fingerprint(fn):
    """Hash of the body's skeleton with the function's own name abstracted."""
    lines = skel.skeleton(fn, subst={fn.name: 'SELF'})
    return hashlib.sha1('\n'.join(lines).encode()).hexdigest()[:16]


def skeleton_version():
    with open(skel.__file__.replace('.pyc', '.py'), 'rb') as fh:
        return hashlib.sha1(fh.read()).hexdigest()[:12]


def load_table():
    try:
        with open(TABLE) as fh:
            t = json.load(fh)
    except FileNotFoundError:
        return None
    if t.get('skeleton_version') != skeleton_version():
        raise RuntimeError('tables/reference_fns.json was made with another version of engine/woodlint/skeleton.py: '
                           'run tools/mkreference.py on the reference tree')
    return t


def detect_renames(raw_fns, table, profile):
    """raw_fns: list of Fn.  Returns {new pretty name: reference pretty name}."""
    ref = table['fns']
    ref_names = set(ref)
    have = set(f.name for f in raw_fns)
    missing = [n for n in ref_names if n not in have and '{closure' not in n]
    new = [f for f in raw_fns if f.name not in ref_names and f.kind.lower() != 'closure' and '{closure' not in f.name]
    if not missing or not new:
        return {}
    by_hash = {}
    for n in missing:
        h = ref[n].get('hash', {}).get(profile)
        if h:
            by_hash.setdefault((ref[n]['crate'], h), []).append(n)
    out = {}
    cand = {}
    for f in new:
        k = (f.crate, fingerprint(f))
        cand.setdefault(k, []).append(f)
    for k, fs in cand.items():
        olds = by_hash.get(k, [])
        if len(fs) == 1 and len(olds) == 1:
            out[fs[0].name] = olds[0]
    # moved rather than renamed: a method turned into a free function (or the reverse), or moved to another
    # module or impl block of the same crate, keeps its simple name.  The body may have been touched at the same
    # time; the rules read it anyway and fail closed on a shape they do not recognise.
    left_new = [f for f in new if f.name not in out]
    left_missing = [n for n in missing if n not in out.values()]
    by_simple = {}
    for n in left_missing:
        by_simple.setdefault((ref[n]['crate'], n.rsplit('::', 1)[-1]), [[], []])[0].append(n)
    for f in left_new:
        k = (f.crate, f.name.rsplit('::', 1)[-1])
        if k in by_simple:
            by_simple[k][1].append(f)
    for (crate, simple), (olds, fs) in by_simple.items():
        if len(olds) == 1 and len(fs) == 1 and not fs[0].d.get('trait_item') and not olds[0].startswith('<'):
            out[fs[0].name] = olds[0]
    # renamed and touched at the same time: recognised by its place in the call graph.  A function the table knows
    # used to call exactly one function that no longer exists and now calls exactly one function the table does not
    # know: that is the same helper under a new name (all such callers must agree).
    left_new = {f.name: f for f in new if f.name not in out}
    left_missing = set(n for n in missing if n not in out.values())
    votes = {}
    for f in raw_fns:
        r = ref.get(out.get(f.name, f.name))
        if not r or 'callees' not in r:
            continue
        cur = {t.get('resp') or t.get('calleep') for b in f.blocks for t in [b['term']] if t['k'] == 'call' and t.get('local')}
        cur = {out.get(c, c) for c in cur if c}
        gone = [c for c in r['callees'] if c in left_missing and c not in cur]
        came = [c for c in cur if c in left_new]
        if len(gone) == 1 and len(came) == 1:
            votes.setdefault(came[0], set()).add(gone[0])
    back = {}
    for n_, olds in votes.items():
        if len(olds) == 1:
            back.setdefault(next(iter(olds)), set()).add(n_)
    for old_, news in back.items():
        if len(news) == 1:
            n_ = next(iter(news))
            if not left_new[n_].d.get('trait_item') and left_new[n_].crate == ref[old_]['crate']:
                out[n_] = old_
    return out


def _adt_shape(a, with_names=True):
    return (a.get('kind'), tuple((v['name'] if with_names else '', tuple((f['n'] if with_names else '', _erase_lt(f['ty'])) for f in v['fields'])) for v in a['variants']))


def _erase_lt(ty):
    return re.sub(r"'\w+", "'_", ty)


def detect_adt_renames(crates, table):
    """Private types renamed with their definition unchanged: {new name: reference name}."""
    ref = table.get('adts') or {}
    have = {a['name']: (c['crate'], a) for c in crates for a in c['adts']}
    def simple(n):
        return n.rsplit('::', 1)[-1]
    missing = [n for n in ref if n not in have]
    new = [(n, ca) for n, ca in have.items() if n not in ref]
    # an exported type may only have *moved* (same simple name: its public path is a re-export); a private one may
    # also have been renamed
    new = [(n, ca) for n, ca in new if not ca[1].get('exported') or any(simple(m) == simple(n) for m in missing)]
    missing = [m for m in missing if not ref[m].get('exported') or any(simple(m) == simple(n) for n, ca in new)]
    out = {}
    for n, (crate, a) in new:
        shape = json.loads(json.dumps(_adt_shape(a)))
        # the type's own name is the variant name of a struct / union
        cands = [m for m in missing if ref[m]['crate'] == crate and _same_shape(ref[m]['shape'], shape, m, n)
                 and (simple(m) == simple(n) or not (ref[m].get('exported') or a.get('exported')))]
        if len(cands) == 1 and sum(1 for n2, (c2, a2) in new if c2 == crate and _same_shape(ref[cands[0]]['shape'], json.loads(json.dumps(_adt_shape(a2))), cands[0], n2)) == 1:
            out[n] = cands[0]
    return out


def _same_shape(ref_shape, shape, ref_name, name):
    rs = json.dumps(ref_shape).replace(ref_name.rsplit('::', 1)[-1], '@')
    ns = json.dumps(shape).replace(name.rsplit('::', 1)[-1], '@')
    return rs == ns


def rename_private_fields(crates, table):
    """Private fields renamed in place (same position, same type): projections and item facts get the reference
    name back.  Returns [(type, new field name, reference field name)]."""
    ref = table.get('adts') or {}
    fix = {}   # (adt name, field index) -> (new, old)
    for c in crates:
        for a in c['adts']:
            r = ref.get(a['name'])
            if not r or len(a['variants']) != 1 or len(r['shape'][1]) != 1:
                continue
            fs, rfs = a['variants'][0]['fields'], r['shape'][1][0][1]
            if len(fs) != len(rfs) or any(_erase_lt(f['ty']) != rf[1] for f, rf in zip(fs, rfs)):
                continue
            names, rnames = [f['n'] for f in fs], [rf[0] for rf in rfs]
            if sorted(names) == sorted(rnames):
                continue   # same set of names (possibly reordered): nothing was renamed
            for i, (f, rf) in enumerate(zip(fs, rfs)):
                if f['n'] != rf[0] and not f['vis'].startswith('Public') and rf[0] not in names:
                    fix[(a['name'], i)] = (f['n'], rf[0])
                    f['n'] = rf[0]
    if not fix:
        return []

    def walk(n):
        if isinstance(n, dict):
            if n.get('k') == 'field' and (n.get('adt'), n.get('i')) in fix:
                n['n'] = fix[(n['adt'], n['i'])][1]
            for v in n.values():
                walk(v)
        elif isinstance(n, list):
            for v in n:
                walk(v)
    for c in crates:
        for f in c['fns']:
            walk(f.get('blocks'))
    return sorted((a, new, old) for (a, i), (new, old) in fix.items())


CALLEE_ALIASES = {
    # free-function spellings of trait methods: one name for the rules
    'core::cmp::min': 'core::cmp::Ord::min', 'std::cmp::min': 'core::cmp::Ord::min',
    'core::cmp::max': 'core::cmp::Ord::max', 'std::cmp::max': 'core::cmp::Ord::max',
}


def apply_callee_aliases(text):
    for a, b in CALLEE_ALIASES.items():
        text = text.replace('"calleep":"%s"' % a, '"calleep":"%s"' % b).replace('"resp":"%s"' % a, '"resp":"%s"' % b)
        text = text.replace('"calleep": "%s"' % a, '"calleep": "%s"' % b).replace('"resp": "%s"' % a, '"resp": "%s"' % b)
    return text


def apply_renames(text, renames):
    for new, old in sorted(renames.items(), key=lambda kv: -len(kv[0])):
        text = re.sub(re.escape(json.dumps(new)[1:-1]) + r'(?![A-Za-z0-9_])', json.dumps(old)[1:-1].replace('\\', '\\\\'), text)
    return text


# ------------------------------------------------------------------ inlining

def _shift_place(pl, loff):
    pl['l'] += loff
    for x in pl['p']:
        if x.get('k') == 'index':
            x['l'] += loff


def _shift(node, loff):
    """Renumber every local inside a statement / terminator / operand tree."""
    if isinstance(node, dict):
        if 'l' in node and 'p' in node and isinstance(node['p'], list):
            _shift_place(node, loff)
            return
        for v in node.values():
            _shift(v, loff)
    elif isinstance(node, list):
        for v in node:
            _shift(v, loff)


def _shift_term_blocks(t, boff):
    k = t['k']
    if k in ('goto', 'drop', 'assert'):
        t['t'] += boff
    elif k == 'call':
        if t['t'] >= 0:
            t['t'] += boff
    elif k == 'switch':
        t['ts'] = [[v, b + boff] for v, b in t['ts']]
        t['o'] += boff


def inline_site(caller, bb, callee):
    """Splice callee's body into caller at the call terminating block bb (both are fact dicts)."""
    t = caller['blocks'][bb]['term']
    loff = len(caller['locals'])
    boff = len(caller['blocks'])
    line = t.get('line', caller.get('line'))
    caller['locals'] = caller['locals'] + callee['locals']
    for k, v in callee.get('debug', {}).items():
        nm = k.rsplit('#', 1)[0]
        caller.setdefault('debug', {})['%s#%d' % (nm, v + loff)] = v + loff
    blocks = copy.deepcopy(callee['blocks'])
    join = boff + len(blocks)
    for blk in blocks:
        _shift(blk['st'], loff)
        _shift(blk['term'], loff)
        _shift_term_blocks(blk['term'], boff)
        if blk['term']['k'] == 'return':
            blk['term'] = {'k': 'goto', 't': join}
    # join block: dest = move _0'
    jst = [{'k': 'assign', 'line': line, 'pl': t['dest'], 'rv': {'k': 'use', 'o': {'k': 'move', 'pl': {'l': loff, 'p': []}}}}]
    jterm = {'k': 'goto', 't': t['t']} if t['t'] >= 0 else {'k': 'unreachable'}
    blocks.append({'cleanup': False, 'st': jst, 'term': jterm, 'inlined': callee['name']})
    # arguments
    st = caller['blocks'][bb]['st']
    for i, a in enumerate(t['args']):
        st.append({'k': 'assign', 'line': line, 'pl': {'l': loff + 1 + i, 'p': []}, 'rv': {'k': 'use', 'o': a}})
    caller['blocks'][bb]['term'] = {'k': 'goto', 't': boff, 'inlined': callee['name'], 'line': line}
    caller['blocks'].extend(blocks)
    caller.setdefault('inlined', []).append(callee['name'])


_OPTION_COMBINATORS = {'is_some_and': 2, 'is_none_or': 2, 'map_or': 3, 'map': 2, 'and_then': 2, 'filter': 2, 'unwrap_or_else': 2}


def desugar_option_combinators(crates, table=None):
    """`opt.map_or(d, f)`, `opt.is_some_and(f)`, `opt.map(f)`, `opt.and_then(f)`, `opt.is_none_or(f)` with f a closure
    written at the call site (one the reference table does not know) or a function item are `match opt { Some(x) =>
    f(x), None => d }` spelled with a combinator.  Rewrite the call into that match: a branch on the discriminant, the
    closure / function called on the payload on the Some side (a later pass splices closure bodies), the default on
    the None side.  Behaviour is unchanged; the rules then see the branch and the guarded expression they know from
    the match spelling.  Returns [(combinator, caller name)]."""
    done = []
    ref_names = set(table['fns']) if table else set()
    for c in crates:
        by_key = {f['key']: f for f in c['fns']}
        for f in c['fns']:
            if not f.get('blocks'):
                continue
            defs = {}
            for blk in f['blocks']:
                for st in blk['st']:
                    if st['k'] == 'assign' and not st['pl']['p']:
                        defs.setdefault(st['pl']['l'], []).append(st)
            nb = len(f['blocks'])
            for bi in range(nb):
                blk = f['blocks'][bi]
                t = blk['term']
                if t['k'] != 'call' or t.get('t', -1) is None or t.get('t', -1) < 0:
                    continue
                m = re.match(r'^(?:std|core)::option::Option::(\w+)$', t.get('calleep') or '')
                if not m or m.group(1) not in _OPTION_COMBINATORS or len(t['args']) != _OPTION_COMBINATORS[m.group(1)]:
                    continue
                comb = m.group(1)
                o, fop = t['args'][0], t['args'][-1]
                if o['k'] not in ('copy', 'move'):
                    continue
                # the callable: a closure built in this function, unknown to the reference tree -- or a function item
                callee = None
                if fop['k'] == 'const' and fop.get('fn'):
                    callee = ('fn', fop['fn'], fop.get('fnp') or fop['fn'])
                elif fop['k'] in ('copy', 'move') and not fop['pl']['p']:
                    ds = defs.get(fop['pl']['l'], [])
                    if len(ds) == 1 and ds[0]['rv']['k'] == 'agg' and ds[0]['rv'].get('ak') == 'closure':
                        cl = by_key.get(ds[0]['rv']['name'])
                        if cl is not None and cl['name'] not in ref_names and cl.get('blocks'):
                            callee = ('closure', cl['key'], cl['name'])
                if callee is None:
                    continue
                line = t.get('line')
                dest, nxt = t['dest'], t['t']
                locs = f['locals']

                def new_local(ty):
                    locs.append(ty)
                    return len(locs) - 1
                d_l = new_local('isize')
                p_l = new_local('?')
                some_pl = {'l': o['pl']['l'], 'p': list(o['pl']['p']) + [{'k': 'downcast', 'n': 'Some', 'v': 1},
                                                                       {'k': 'field', 'i': 0, 'n': '0', 'adt': 'core::option::Option', 'ty': '?', 'union': False}]}
                bs, bn = len(f['blocks']), len(f['blocks']) + 1
                blk['st'].append({'k': 'assign', 'line': line, 'pl': {'l': d_l, 'p': []}, 'rv': {'k': 'discr', 'pl': {'l': o['pl']['l'], 'p': list(o['pl']['p'])}}})
                blk['term'] = {'k': 'switch', 'line': line, 'd': {'k': 'move', 'pl': {'l': d_l, 'p': []}}, 'ts': [['1', bs]], 'o': bn, 'desugared': comb}
                # Some side
                some_st = [{'k': 'assign', 'line': line, 'pl': {'l': p_l, 'p': []}, 'rv': {'k': 'use', 'o': {'k': 'move', 'pl': some_pl}}}]
                call_dest = dest
                after = nxt
                extra = []
                if comb == 'unwrap_or_else':
                    # Some(x) => x, None => f()
                    f['blocks'].append({'st': [{'k': 'assign', 'line': line, 'pl': copy.deepcopy(dest), 'rv': {'k': 'use', 'o': {'k': 'move', 'pl': some_pl}}}],
                                        'term': {'k': 'goto', 't': nxt}, 'cleanup': False})
                    if callee[0] == 'fn':
                        ncall = {'k': 'call', 'line': line, 'exp': False, 'callee': callee[1], 'calleep': callee[2], 'res': callee[1], 'resp': callee[2], 'gen': '[]',
                                 'unsafe': False, 'local': callee[1] in by_key, 'fnop': None, 'args': [], 'dest': copy.deepcopy(dest), 't': nxt}
                        nst = []
                    else:
                        t_l = new_local('()')
                        nst = [{'k': 'assign', 'line': line, 'pl': {'l': t_l, 'p': []}, 'rv': {'k': 'agg', 'ak': 'tuple', 'name': '', 'variant': '', 'ops': []}}]
                        ncall = {'k': 'call', 'line': line, 'exp': False, 'callee': 'core::ops::function::FnOnce::call_once', 'calleep': 'core::ops::function::FnOnce::call_once',
                                 'res': callee[1], 'resp': callee[2], 'gen': '[]', 'unsafe': False, 'local': True, 'fnop': None,
                                 'args': [copy.deepcopy(fop), {'k': 'move', 'pl': {'l': t_l, 'p': []}}], 'dest': copy.deepcopy(dest), 't': nxt}
                    f['blocks'].append({'st': nst, 'term': ncall, 'cleanup': False})
                    done.append((comb, f['name']))
                    f['desugared'] = True
                    continue
                if comb == 'filter':
                    # the predicate sees a reference to the payload; the Option itself is passed on where it holds
                    r_l = new_local('&?')
                    c_l = new_local('bool')
                    some_st = [{'k': 'assign', 'line': line, 'pl': {'l': r_l, 'p': []}, 'rv': {'k': 'ref', 'mut': False, 'pl': copy.deepcopy(some_pl)}}]
                    p_l = r_l
                    call_dest = {'l': c_l, 'p': []}
                    after = len(f['blocks']) + 2
                    keep = len(f['blocks']) + 3
                    extra = [{'st': [], 'term': {'k': 'switch', 'line': line, 'd': {'k': 'move', 'pl': {'l': c_l, 'p': []}}, 'ts': [['0', bn]], 'o': keep}},
                             {'st': [{'k': 'assign', 'line': line, 'pl': copy.deepcopy(dest), 'rv': {'k': 'use', 'o': copy.deepcopy(o)}}], 'term': {'k': 'goto', 't': nxt}}]
                if comb == 'map':
                    r_l = new_local('?')
                    call_dest = {'l': r_l, 'p': []}
                    after = len(f['blocks']) + 2
                    extra = [{'st': [{'k': 'assign', 'line': line, 'pl': copy.deepcopy(dest), 'rv': {'k': 'agg', 'ak': 'adt', 'name': 'core::option::Option', 'variant': 'Some',
                                                                                 'ops': [{'k': 'move', 'pl': {'l': r_l, 'p': []}}]}}],
                              'term': {'k': 'goto', 't': nxt}}]
                if callee[0] == 'fn':
                    call = {'k': 'call', 'line': line, 'exp': False, 'callee': callee[1], 'calleep': callee[2], 'res': callee[1], 'resp': callee[2], 'gen': '[]',
                            'unsafe': False, 'local': callee[1] in by_key, 'fnop': None, 'args': [{'k': 'move', 'pl': {'l': p_l, 'p': []}}], 'dest': call_dest, 't': after}
                else:
                    t_l = new_local('(?,)')
                    some_st.append({'k': 'assign', 'line': line, 'pl': {'l': t_l, 'p': []}, 'rv': {'k': 'agg', 'ak': 'tuple', 'name': '', 'variant': '',
                                                                                              'ops': [{'k': 'move', 'pl': {'l': p_l, 'p': []}}]}})
                    call = {'k': 'call', 'line': line, 'exp': False, 'callee': 'core::ops::function::FnOnce::call_once', 'calleep': 'core::ops::function::FnOnce::call_once',
                            'res': callee[1], 'resp': callee[2], 'gen': '[]', 'unsafe': False, 'local': True, 'fnop': None,
                            'args': [copy.deepcopy(fop), {'k': 'move', 'pl': {'l': t_l, 'p': []}}], 'dest': call_dest, 't': after}
                f['blocks'].append({'st': some_st, 'term': call, 'cleanup': False})
                # None side
                if comb == 'map_or':
                    rv = {'k': 'use', 'o': copy.deepcopy(t['args'][1])}
                elif comb in ('map', 'and_then', 'filter'):
                    rv = {'k': 'agg', 'ak': 'adt', 'name': 'core::option::Option', 'variant': 'None', 'ops': []}
                else:
                    rv = {'k': 'use', 'o': {'k': 'const', 'ty': 'bool', 'int': '1' if comb == 'is_none_or' else '0'}}
                f['blocks'].append({'st': [{'k': 'assign', 'line': line, 'pl': copy.deepcopy(dest), 'rv': rv}], 'term': {'k': 'goto', 't': nxt}, 'cleanup': False})
                for x_ in extra:
                    x_.setdefault('cleanup', False)
                f['blocks'].extend(extra)
                done.append((comb, f['name']))
                f['desugared'] = True
    return done


def desugar_bool_then_some(crates, table=None):
    """`cond.then_some(v)` is `if cond { Some(v) } else { None }` (v is evaluated either way): rewrite the call into
    that branch.  Returns [(combinator, caller name)]."""
    done = []
    for c in crates:
        for f in c['fns']:
            if not f.get('blocks'):
                continue
            for bi in range(len(f['blocks'])):
                blk = f['blocks'][bi]
                t = blk['term']
                if t['k'] != 'call' or (t.get('calleep') or '') not in ('<bool>::then_some', '<bool>::then') or len(t['args']) != 2 or t.get('t', -1) is None or t.get('t', -1) < 0:
                    continue
                cond, val = t['args']
                if cond['k'] not in ('copy', 'move') or cond['pl']['p']:
                    continue
                line, dest, nxt = t.get('line'), t['dest'], t['t']
                L = len(f['blocks'])
                if t['calleep'] == '<bool>::then':
                    # `cond.then(|| v)`: the closure runs on the true side only
                    key = _closure_value(f, val)
                    by_key = {g['key']: g for g in c['fns']}
                    cl = by_key.get(key or '')
                    if cl is None or cl.get('kind') != 'Closure':
                        continue
                    f['locals'].append('()')
                    t_l = len(f['locals']) - 1
                    f['locals'].append('?')
                    r_l = len(f['locals']) - 1
                    blk['term'] = {'k': 'switch', 'line': line, 'd': copy.deepcopy(cond), 'ts': [['0', L + 1]], 'o': L, 'desugared': 'then'}
                    f['blocks'].append({'st': [{'k': 'assign', 'line': line, 'pl': {'l': t_l, 'p': []}, 'rv': {'k': 'agg', 'ak': 'tuple', 'name': '', 'variant': '', 'ops': []}}],
                                        'term': {'k': 'call', 'line': line, 'exp': False, 'callee': 'core::ops::function::FnOnce::call_once',
                                                 'calleep': 'core::ops::function::FnOnce::call_once', 'res': cl['key'], 'resp': cl['name'], 'gen': '[]', 'unsafe': False,
                                                 'local': True, 'fnop': None, 'args': [copy.deepcopy(val), {'k': 'move', 'pl': {'l': t_l, 'p': []}}],
                                                 'dest': {'l': r_l, 'p': []}, 't': L + 2}, 'cleanup': False})
                    f['blocks'].append({'st': [{'k': 'assign', 'line': line, 'pl': copy.deepcopy(dest), 'rv': {'k': 'agg', 'ak': 'adt', 'name': 'core::option::Option',
                                                                                                              'variant': 'None', 'ops': []}}],
                                        'term': {'k': 'goto', 't': nxt}, 'cleanup': False})
                    f['blocks'].append({'st': [{'k': 'assign', 'line': line, 'pl': copy.deepcopy(dest), 'rv': {'k': 'agg', 'ak': 'adt', 'name': 'core::option::Option',
                                                                                                              'variant': 'Some', 'ops': [{'k': 'move', 'pl': {'l': r_l, 'p': []}}]}}],
                                        'term': {'k': 'goto', 't': nxt}, 'cleanup': False})
                    f['desugared'] = True
                    done.append(('bool::then', f['name']))
                    continue
                blk['term'] = {'k': 'switch', 'line': line, 'd': copy.deepcopy(cond), 'ts': [['0', L + 1]], 'o': L, 'desugared': 'then_some'}
                f['blocks'].append({'st': [{'k': 'assign', 'line': line, 'pl': copy.deepcopy(dest), 'rv': {'k': 'agg', 'ak': 'adt', 'name': 'core::option::Option',
                                                                                                          'variant': 'Some', 'ops': [copy.deepcopy(val)]}}],
                                    'term': {'k': 'goto', 't': nxt}, 'cleanup': False})
                f['blocks'].append({'st': [{'k': 'assign', 'line': line, 'pl': copy.deepcopy(dest), 'rv': {'k': 'agg', 'ak': 'adt', 'name': 'core::option::Option',
                                                                                                          'variant': 'None', 'ops': []}}],
                                    'term': {'k': 'goto', 't': nxt}, 'cleanup': False})
                f['desugared'] = True
                done.append(('bool::then_some', f['name']))
    return done


_RESULT_COMBINATORS = {'map': 2, 'map_err': 2, 'and_then': 2}


def desugar_result_combinators(crates, table=None):
    """`res.map(f)`, `res.map_err(f)`, `res.and_then(f)` with f a closure written at the call site (unknown to the
    reference table) or a function item, rewritten into `match res { Ok(x) => .., Err(e) => .. }` -- the Result
    counterpart of desugar_option_combinators.  Returns [(combinator, caller name)]."""
    done = []
    ref_names = set(table['fns']) if table else set()
    for c in crates:
        by_key = {f['key']: f for f in c['fns']}
        for f in c['fns']:
            if not f.get('blocks'):
                continue
            defs = {}
            for blk in f['blocks']:
                for st in blk['st']:
                    if st['k'] == 'assign' and not st['pl']['p']:
                        defs.setdefault(st['pl']['l'], []).append(st)
            for bi in range(len(f['blocks'])):
                blk = f['blocks'][bi]
                t = blk['term']
                if t['k'] != 'call' or t.get('t', -1) is None or t.get('t', -1) < 0:
                    continue
                m = re.match(r'^(?:std|core)::result::Result::(\w+)$', t.get('calleep') or '')
                if not m or m.group(1) not in _RESULT_COMBINATORS or len(t['args']) != _RESULT_COMBINATORS[m.group(1)]:
                    continue
                comb = m.group(1)
                o, fop = t['args'][0], t['args'][-1]
                if o['k'] not in ('copy', 'move'):
                    continue
                callee = None
                if fop['k'] == 'const' and fop.get('fn'):
                    callee = ('fn', fop['fn'], fop.get('fnp') or fop['fn'])
                elif fop['k'] in ('copy', 'move') and not fop['pl']['p']:
                    ds = defs.get(fop['pl']['l'], [])
                    if len(ds) == 1 and ds[0]['rv']['k'] == 'agg' and ds[0]['rv'].get('ak') == 'closure':
                        cl = by_key.get(ds[0]['rv']['name'])
                        if cl is not None and cl['name'] not in ref_names and cl.get('blocks'):
                            callee = ('closure', cl['key'], cl['name'])
                if callee is None:
                    continue
                line = t.get('line')
                dest, nxt = t['dest'], t['t']
                locs = f['locals']

                def new_local(ty):
                    locs.append(ty)
                    return len(locs) - 1

                def payload(variant, idx):
                    return {'l': o['pl']['l'], 'p': list(o['pl']['p']) + [{'k': 'downcast', 'n': variant, 'v': idx},
                                                                          {'k': 'field', 'i': 0, 'n': '0', 'adt': 'core::result::Result', 'ty': '?', 'union': False}]}

                def wrap(variant, src_local):
                    return {'k': 'agg', 'ak': 'adt', 'name': 'core::result::Result', 'variant': variant, 'ops': [{'k': 'move', 'pl': {'l': src_local, 'p': []}}]}
                d_l, p_l, r_l = new_local('isize'), new_local('?'), new_local('?')
                L = len(f['blocks'])
                called = ('Err', 1) if comb == 'map_err' else ('Ok', 0)
                passed = called[1]
                other = ('Ok', 0) if comb == 'map_err' else ('Err', 1)
                b_call, b_pass, b_wrap = L, L + 1, L + 2
                blk['st'].append({'k': 'assign', 'line': line, 'pl': {'l': d_l, 'p': []}, 'rv': {'k': 'discr', 'pl': {'l': o['pl']['l'], 'p': list(o['pl']['p'])}}})
                blk['term'] = {'k': 'switch', 'line': line, 'd': {'k': 'move', 'pl': {'l': d_l, 'p': []}}, 'ts': [[str(passed), b_call]], 'o': b_pass, 'desugared': comb}
                st = [{'k': 'assign', 'line': line, 'pl': {'l': p_l, 'p': []}, 'rv': {'k': 'use', 'o': {'k': 'move', 'pl': payload(*called)}}}]
                call_dest = copy.deepcopy(dest) if comb == 'and_then' else {'l': r_l, 'p': []}
                after = nxt if comb == 'and_then' else b_wrap
                if callee[0] == 'fn':
                    call = {'k': 'call', 'line': line, 'exp': False, 'callee': callee[1], 'calleep': callee[2], 'res': callee[1], 'resp': callee[2], 'gen': '[]',
                            'unsafe': False, 'local': callee[1] in by_key, 'fnop': None, 'args': [{'k': 'move', 'pl': {'l': p_l, 'p': []}}], 'dest': call_dest, 't': after}
                else:
                    t_l = new_local('(?,)')
                    st.append({'k': 'assign', 'line': line, 'pl': {'l': t_l, 'p': []}, 'rv': {'k': 'agg', 'ak': 'tuple', 'name': '', 'variant': '',
                                                                                         'ops': [{'k': 'move', 'pl': {'l': p_l, 'p': []}}]}})
                    call = {'k': 'call', 'line': line, 'exp': False, 'callee': 'core::ops::function::FnOnce::call_once', 'calleep': 'core::ops::function::FnOnce::call_once',
                            'res': callee[1], 'resp': callee[2], 'gen': '[]', 'unsafe': False, 'local': True, 'fnop': None,
                            'args': [copy.deepcopy(fop), {'k': 'move', 'pl': {'l': t_l, 'p': []}}], 'dest': call_dest, 't': after}
                f['blocks'].append({'st': st, 'term': call, 'cleanup': False})
                q_l = new_local('?')
                f['blocks'].append({'st': [{'k': 'assign', 'line': line, 'pl': {'l': q_l, 'p': []}, 'rv': {'k': 'use', 'o': {'k': 'move', 'pl': payload(*other)}}},
                                           {'k': 'assign', 'line': line, 'pl': copy.deepcopy(dest), 'rv': wrap(other[0], q_l)}],
                                    'term': {'k': 'goto', 't': nxt}, 'cleanup': False})
                f['blocks'].append({'st': [{'k': 'assign', 'line': line, 'pl': copy.deepcopy(dest), 'rv': wrap(called[0], r_l)}] if comb != 'and_then' else [],
                                    'term': {'k': 'goto', 't': nxt}, 'cleanup': False})
                f['desugared'] = True
                done.append(('Result::' + comb, f['name']))
    return done


def _closure_value(f, o, depth=0):
    """key of the closure an operand holds, following single-definition copies / moves / references of plain locals"""
    if depth > 6 or o.get('k') not in ('copy', 'move') or o['pl']['p']:
        return None
    l = o['pl']['l']
    defs = [st for b in f['blocks'] for st in b['st'] if st['k'] == 'assign' and not st['pl']['p'] and st['pl']['l'] == l]
    if len(defs) != 1 or any(b['term']['k'] == 'call' and b['term'].get('dest') and not b['term']['dest']['p'] and b['term']['dest']['l'] == l for b in f['blocks']):
        return None
    rv = defs[0]['rv']
    if rv['k'] == 'agg' and rv.get('ak') == 'closure':
        return rv.get('name')
    if rv['k'] == 'use':
        return _closure_value(f, rv['o'], depth + 1)
    return None


def inline_local_closure_calls(crates, table=None):
    """A closure defined in a function and called directly by it (`let f = |x| ..; f(a)`) is straight-line code
    with a name: splice its body into each direct call site (rust-call ABI: the argument tuple is spread over the
    closure's parameters, the first parameter is the closure value or a reference to it).  The closure itself stays
    in the program (the aggregate that builds it still names it).  Only closures the reference table does not know
    are spliced (like new helper functions).  Returns [(closure name, caller name)]."""
    done = []
    ref_names = set(table['fns']) if table else set()
    for c in crates:
        by_key = {f['key']: f for f in c['fns']}
        for f in c['fns']:
            for _ in range(16):
                site = None
                for bi, blk in enumerate(f['blocks']):
                    t = blk['term']
                    if t['k'] != 'call' or t.get('calleep') not in ('core::ops::function::Fn::call', 'core::ops::function::FnMut::call_mut',
                                                                     'core::ops::function::FnOnce::call_once'):
                        continue
                    cl = by_key.get(t.get('res') or '')
                    if (cl is None or cl.get('kind') != 'Closure') and len(t['args']) == 2:
                        # a generic helper `fn h(step: impl FnOnce(..))` spliced into its caller: the callee was not
                        # resolvable inside h, but here the callable is a local holding one closure aggregate
                        cl = by_key.get(_closure_value(f, t['args'][0]) or '')
                    if cl is None or cl.get('kind') != 'Closure' or cl is f or len(t['args']) != 2 or not cl.get('blocks'):
                        continue
                    if cl['name'] in ref_names:
                        continue   # a closure of the reference tree: the rules know it as it is
                    if _has_loop(cl) and _loop_free_in_reference(table, f):
                        continue   # (same reason as for helper functions)
                    # defined in this function (or in a closure of it): parent chain reaches f
                    # (defined in this function, in a closure of it, or in a helper that was spliced into it: in every
                    # case the call resolves to that one closure body)
                    if any(b2['term']['k'] == 'call' and b2['term'].get('res') == cl['key'] for b2 in cl['blocks']):
                        continue
                    site = (bi, cl)
                    break
                if site is None:
                    break
                bi, cl = site
                t = f['blocks'][bi]['term']
                tup = t['args'][1]
                spread = [t['args'][0]]
                for i in range(cl['argc'] - 1):
                    if tup['k'] not in ('copy', 'move'):
                        spread = None
                        break
                    spread.append({'k': 'copy', 'pl': {'l': tup['pl']['l'], 'p': list(tup['pl']['p']) + [
                        {'k': 'field', 'i': i, 'n': str(i), 'adt': '', 'ty': '', 'union': False}]}})
                if spread is None:
                    t['calleep'] = t['calleep'] + ' '   # leave it, and do not look at it again
                    continue
                t['args'] = spread
                inline_site(f, bi, cl)
                done.append((cl['name'], f['name']))
    return done


def _loop_free_in_reference(table, f):
    """f (a fact dict) is a function the reference table knows as loop-free -- the path evaluator applies to it and a
    rule may depend on that; a function the table does not know counts as loop-free if it is so now."""
    r = (table or {}).get('fns', {}).get(f['name'])
    if r is not None and 'loops' in r:
        return not r['loops']
    return not _has_loop(f)


def _has_loop(d):
    """Does the fact-level CFG of function dict d contain a cycle (ignoring unwind edges, which are not recorded)?"""
    succ = []
    for blk in d['blocks']:
        t = blk['term']
        k = t['k']
        if k in ('goto', 'drop', 'assert'):
            succ.append([t['t']])
        elif k == 'call':
            succ.append([t['t']] if t['t'] >= 0 else [])
        elif k == 'switch':
            succ.append(sorted({b for v, b in t['ts']} | {t['o']}))
        else:
            succ.append([])
    color = {}
    stack = [(0, iter(succ[0]))] if succ else []
    color[0] = 1
    while stack:
        b, it = stack[-1]
        for s_ in it:
            if color.get(s_) == 1:
                return True
            if s_ not in color:
                color[s_] = 1
                stack.append((s_, iter(succ[s_])))
                break
        else:
            color[b] = 2
            stack.pop()
    return False


def fold_const_switches(f):
    """`if false { .. }`, `if cfg!(..) { .. }`: a branch on a constant (the operand itself, or a temporary assigned that
    constant in the same block and nowhere else) has one live edge.  Replace the switch by a goto along it, so the dead
    arm is as unreachable for the rules as it is for the program."""
    blocks = f['blocks']
    ndefs = {}
    for b in blocks:
        for st in b['st']:
            if st['k'] == 'assign' and not st['pl']['p']:
                ndefs[st['pl']['l']] = ndefs.get(st['pl']['l'], 0) + 1
        t = b['term']
        if t['k'] == 'call' and t.get('dest') and not t['dest']['p']:
            ndefs[t['dest']['l']] = ndefs.get(t['dest']['l'], 0) + 2

    def const_of(o, blk):
        if o['k'] == 'const':
            return o.get('int')
        if o['k'] in ('copy', 'move') and not o['pl']['p'] and ndefs.get(o['pl']['l']) == 1:
            for st in blk['st']:
                if st['k'] == 'assign' and not st['pl']['p'] and st['pl']['l'] == o['pl']['l']:
                    rv = st['rv']
                    if rv['k'] == 'use' and rv['o']['k'] == 'const':
                        return rv['o'].get('int')
        return None
    n = 0
    for b in blocks:
        t = b['term']
        if t['k'] != 'switch':
            continue
        c = const_of(t['d'], b)
        if c is None:
            continue
        try:
            c = int(c)
        except (TypeError, ValueError):
            continue
        tgt = next((tg for v, tg in t['ts'] if int(v) == c), t['o'])
        b['term'] = {'k': 'goto', 't': tgt, 'folded': True, 'line': t.get('line')}
        n += 1
    return n


def thread_const_bool_gotos(f):
    """`d = const true/false; goto S` where S is nothing but `switch d` and d is read nowhere else: go straight to the arm
    that constant selects.  After an Option combinator was rewritten into its match, this keeps the `None => false` arm
    from meeting the `Some(x) => p(x)` arm in front of the branch on the result (where the rules would only see a merged
    value)."""
    blocks = f['blocks']
    reads = {}

    def walk(x):
        if isinstance(x, dict):
            if 'l' in x and isinstance(x.get('p'), list):
                reads[x['l']] = reads.get(x['l'], 0) + 1
                for q in x['p']:
                    if q.get('k') == 'index':
                        reads[q.get('l')] = reads.get(q.get('l'), 0) + 1
                return
            for v in x.values():
                walk(v)
        elif isinstance(x, list):
            for v in x:
                walk(v)
    for b in blocks:
        for st in b['st']:
            if st['k'] == 'assign':
                walk(st['rv'])
                if st['pl']['p']:
                    walk(st['pl'])
            else:
                walk(st)
        t = b['term']
        if t['k'] == 'call':
            walk(t['args'])
        elif t['k'] == 'switch':
            walk(t['d'])
        elif t['k'] == 'drop':
            walk(t['pl'])
        elif t['k'] == 'assert':
            walk(t['c'])
    n = 0
    for b in blocks:
        t = b['term']
        if t['k'] != 'goto' or not b['st']:
            continue
        last = b['st'][-1]
        if last['k'] != 'assign' or last['pl']['p'] or last['rv']['k'] != 'use' or last['rv']['o']['k'] != 'const' or last['rv']['o'].get('ty') != 'bool':
            continue
        d = last['pl']['l']
        S = blocks[t['t']]
        ts = S['term']
        neg = False
        if len(S['st']) == 1 and S['st'][0]['k'] == 'assign' and not S['st'][0]['pl']['p'] and S['st'][0]['rv']['k'] == 'unop' and S['st'][0]['rv'].get('op') == 'Not' \
                and (S['st'][0]['rv'].get('o') or S['st'][0]['rv'].get('a') or {}).get('k') in ('copy', 'move') \
                and not (S['st'][0]['rv'].get('o') or S['st'][0]['rv'].get('a'))['pl']['p'] and (S['st'][0]['rv'].get('o') or S['st'][0]['rv'].get('a'))['pl']['l'] == d \
                and ts['k'] == 'switch' and ts['d'].get('k') in ('copy', 'move') and not ts['d']['pl']['p'] and ts['d']['pl']['l'] == S['st'][0]['pl']['l'] \
                and reads.get(d, 0) == 1 and reads.get(S['st'][0]['pl']['l'], 0) == 1:
            # S is `n = !d; switch n` (`if !(a || b)`): same thing with the constant negated
            neg = True
        elif len(S['st']) == 1 and S['st'][0]['k'] == 'assign' and not S['st'][0]['pl']['p'] and S['st'][0]['rv']['k'] == 'use' \
                and S['st'][0]['rv']['o'].get('k') in ('copy', 'move') and not S['st'][0]['rv']['o']['pl']['p'] and S['st'][0]['rv']['o']['pl']['l'] == d \
                and ts['k'] == 'switch' and ts['d'].get('k') in ('copy', 'move') and not ts['d']['pl']['p'] and ts['d']['pl']['l'] == S['st'][0]['pl']['l'] \
                and reads.get(d, 0) == 1 and reads.get(S['st'][0]['pl']['l'], 0) == 1:
            pass        # S is `x = d; switch x`
        elif S['st'] or ts['k'] != 'switch' or ts['d'].get('k') not in ('copy', 'move') or ts['d']['pl']['p'] or ts['d']['pl']['l'] != d or reads.get(d, 0) != 1:
            continue
        try:
            v = int(last['rv']['o'].get('int'))
        except (TypeError, ValueError):
            continue
        if neg:
            v = 1 - v
        tgt = next((tg for val, tg in ts['ts'] if int(val) == v), ts['o'])
        b['term'] = {'k': 'goto', 't': tgt, 'threaded': True}
        b['st'].pop()      # (the constant was only ever read by the branch that is now bypassed)
        n += 1
    return n


def thread_bool_returns(f):
    """After a predicate helper has been spliced in, its `return true` / `return false` paths meet in the join block
    and the caller branches on the merged value: on the CFG every return then reaches both branches, and a guard
    tested inside the helper no longer cuts anything off.  Thread the constant returns straight to the branch
    they select (jump threading), when the merged value is used by that branch only.  Behaviour is unchanged."""
    blocks = f['blocks']

    def reads(local):
        n = 0
        def walk(x):
            nonlocal n
            if isinstance(x, dict):
                if 'l' in x and isinstance(x.get('p'), list):
                    if x['l'] == local:
                        n += 1
                    for q in x['p']:
                        if q.get('k') == 'index' and q.get('l') == local:
                            n += 1
                    return
                for v in x.values():
                    walk(v)
            elif isinstance(x, list):
                for v in x:
                    walk(v)
        for b in blocks:
            for st in b['st']:
                if st['k'] == 'assign':
                    walk(st['rv'])
                    if st['pl']['p']:
                        walk(st['pl'])
                else:
                    walk(st)
            t = b['term']
            if t['k'] == 'call':
                walk(t['args'])
            elif t['k'] == 'switch':
                walk(t['d'])
            elif t['k'] in ('drop',):
                walk(t['pl'])
            elif t['k'] == 'assert':
                walk(t['c'])
        return n

    changed = False
    for ji, J in enumerate(blocks):
        if not J.get('inlined') or len(J['st']) != 1 or J['term']['k'] != 'goto':
            continue
        a = J['st'][0]
        if a['k'] != 'assign' or a['pl']['p'] or a['rv']['k'] != 'use' or a['rv']['o']['k'] not in ('copy', 'move') or a['rv']['o']['pl']['p']:
            continue
        dest, ret = a['pl']['l'], a['rv']['o']['pl']['l']
        if f['locals'][dest] != 'bool':
            continue
        N = blocks[J['term']['t']]
        tn = N['term']
        if tn['k'] != 'switch' or tn['d']['k'] not in ('copy', 'move') or tn['d']['pl']['p']:
            continue
        negated = False
        if not N['st'] and tn['d']['pl']['l'] == dest:
            pass
        elif len(N['st']) == 1 and N['st'][0]['k'] == 'assign' and not N['st'][0]['pl']['p'] and N['st'][0]['rv']['k'] == 'unop' and N['st'][0]['rv']['op'] == 'Not' \
                and N['st'][0]['rv']['a']['k'] in ('copy', 'move') and not N['st'][0]['rv']['a']['pl']['p'] and N['st'][0]['rv']['a']['pl']['l'] == dest \
                and tn['d']['pl']['l'] == N['st'][0]['pl']['l'] and reads(N['st'][0]['pl']['l']) == 1:
            negated = True     # if !helper(..)
        else:
            continue
        if reads(dest) != 1 or reads(ret) != 1:
            continue
        targets = {str(v): b for v, b in tn['ts']}

        def writes_ret(blk):
            return any(st['k'] == 'assign' and st['pl']['l'] in (ret, dest) for st in blk['st'])

        def chain_to_join(start):
            """blocks from `start` to J through single-successor blocks (goto / drop) that do not touch ret"""
            out, b = [], start
            while b != ji:
                blk = blocks[b]
                if len(out) > 6 or blk['term']['k'] not in ('goto', 'drop') or writes_ret(blk):
                    return None
                out.append(b)
                b = blk['term']['t']
            return out
        for pi in range(len(blocks)):
            P = blocks[pi]
            if P is J or P['term']['k'] != 'goto' or not P['st']:
                continue
            last = P['st'][-1]
            if not (last['k'] == 'assign' and not last['pl']['p'] and last['pl']['l'] == ret and last['rv']['k'] == 'use' and last['rv']['o']['k'] == 'const'
                    and last['rv']['o'].get('ty') == 'bool' and last['rv']['o'].get('int') is not None):
                continue
            chain = chain_to_join(P['term']['t'])
            if chain is None:
                continue
            v = str(int(last['rv']['o']['int']) ^ (1 if negated else 0))
            goal = targets.get(v, tn['o'])
            # private copies of the blocks between the constant return and the join (temporaries dropped on the way)
            nxt = goal
            for b in reversed(chain):
                cp = copy.deepcopy(blocks[b])
                cp['term']['t'] = nxt
                cp['threaded_copy'] = True
                blocks.append(cp)
                nxt = len(blocks) - 1
            P['st'] = P['st'][:-1]
            P['term'] = {'k': 'goto', 't': nxt, 'threaded': True}
            changed = True
    return changed


def _fn_value_uses(d, key):
    """Does the body use `key` as a function value (not in call position)?"""
    found = []

    def walk(n):
        if isinstance(n, dict):
            if n.get('k') == 'const' and n.get('fn') == key:
                found.append(1)
            for v in n.values():
                walk(v)
        elif isinstance(n, list):
            for v in n:
                walk(v)
    for blk in d['blocks']:
        walk(blk['st'])
        t = blk['term']
        if t['k'] == 'call':
            walk(t['args'])
            if t.get('fnop'):
                walk(t['fnop'])
        else:
            walk(t)
    return bool(found)


# Private helpers of the reference tree that the rules read *through*: they are always spliced into their callers,
# so that the rules see one shape whether the helper exists or a maintainer has inlined it by hand.
ALWAYS_INLINE = (
    'hcobs::encoder::EncoderState::write_partial_stuff_sequence',
    'owning_iovec::byte_arena::anchor::Anchor::is_same_chunk',
)


def inline_new_helpers(crates, table):
    """crates: list of parsed fact dicts (mutated in place).  Returns [(helper name, [caller names])]."""
    ref_names = set(table['fns']) - set(ALWAYS_INLINE)
    done = []
    for _ in range(MAX_ROUNDS):
        progress = False
        allfns = [(c, f) for c in crates for f in c['fns']]
        by_key = {f['key']: (c, f) for c, f in allfns}
        for c, h in allfns:
            if h['name'] in ref_names or h['kind'].lower() == 'closure' or '{closure' in h['name']:
                continue
            if h.get('trait_item') or h.get('derived') or not h.get('blocks') or h.get('_spliced'):
                continue
            if h['kind'] not in ('Fn', 'AssocFn'):
                continue
            key = h['key']
            # direct, non-recursive, same-crate call sites only
            sites = []
            bad = False
            for c2, f in allfns:
                for bi, blk in enumerate(f['blocks']):
                    t = blk['term']
                    if t['k'] == 'call' and (t.get('res') == key or (not t.get('res') and t.get('callee') == key)):
                        if f is h or c2 is not c:
                            bad = True
                        sites.append((f, bi))
                if _fn_value_uses(f, key):
                    bad = True
            # calls inside the helper to other new helpers are handled in a later round (innermost first)
            inner_new = any(t['k'] == 'call' and (t.get('res') in by_key) and by_key[t['res']][1]['name'] not in ref_names
                            and by_key[t['res']][1] is not h and not by_key[t['res']][1].get('exported')
                            and by_key[t['res']][1]['kind'] in ('Fn', 'AssocFn')
                            for t in (b['term'] for b in h['blocks']))
            if bad or not sites or inner_new:
                continue
            if h['name'] not in ALWAYS_INLINE and _has_loop(h) and any(_loop_free_in_reference(table, f) for f, bi in sites):
                # splicing a loop into a loop-free caller would take the caller out of reach of the path evaluator;
                # the helper stays a function and the rules that care look into it
                h['_keep'] = True
                continue
            callers = []
            for f, bi in sites:
                inline_site(f, bi, h)
                callers.append(f['name'])
            # closures defined in the helper now belong to (the first of) its callers
            first = sites[0][0]['key']
            for c2, f in allfns:
                if f.get('parent_fn') == key:
                    f['parent_fn'] = first
            if h.get('exported'):
                h['_spliced'] = True   # part of the public surface: stays a function, its callers see through it
            else:
                c['fns'] = [f for f in c['fns'] if f is not h]
            done.append((h['name'], sorted(set(callers))))
            progress = True
            break
        if not progress:
            break
    return done
