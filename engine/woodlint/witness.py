"""E3: compile-fail witnesses.  rustc itself is the checker: for each witness a bin target that must fail
with one specific error code at the marked line, and a compiling twin differing only by that line."""
import json
import os
import re
import shutil
import subprocess

from . import extract

WDIR = os.path.join(extract.VERIF, 'witnesses')


def run(prop, repo='/repo'):
    """returns (code, info): records for the rule table; code 2 if the harness itself is broken."""
    exp = {k: v for k, v in json.load(open(os.path.join(WDIR, 'expect.json'))).items() if not k.startswith('_') and prop in v['serves']}
    if not exp:
        return 0, {}
    if repo != '/repo':
        return 0, {'witnesses_skipped': 'witness crate path-depends on /repo'}
    shutil.copy(os.path.join(repo, 'Cargo.lock'), os.path.join(WDIR, 'Cargo.lock'))
    env = dict(os.environ, CARGO_NET_OFFLINE='true', CARGO_TARGET_DIR=os.path.join(extract.CACHE, 'target-witness'))
    bins = []
    for k in exp:
        bins += ['--bin', k + '_fail', '--bin', k + '_ok']
    r = subprocess.run(['cargo', '+nightly', 'check', '--offline', '--keep-going', '--message-format=json'] + bins, cwd=WDIR, env=env, capture_output=True, text=True)
    errs = {}
    built = set()
    for line in r.stdout.splitlines():
        try:
            m = json.loads(line)
        except ValueError:
            continue
        if m.get('reason') == 'compiler-artifact' and m.get('target', {}).get('kind') == ['bin']:
            built.add(m['target']['name'])
        if m.get('reason') == 'compiler-message' and m.get('message', {}).get('level') == 'error':
            t = m['target']['name']
            code = (m['message'].get('code') or {}).get('code')
            line_no = None
            for sp in m['message'].get('spans', []):
                if sp.get('is_primary'):
                    line_no = sp['line_start']
            errs.setdefault(t, []).append((code, line_no, m['message']['message'][:120]))
    if not built and not errs:
        return 2, {'error': 'witness harness did not run: ' + r.stderr[-500:]}
    records = []
    for k, v in sorted(exp.items()):
        src = open(os.path.join(WDIR, 'src', 'bin', k + '_fail.rs')).read().splitlines()
        marked = [i + 1 for i, l in enumerate(src) if '//~ ERROR' in l]
        fe = errs.get(k + '_fail', [])
        ok_twin = (k + '_ok') in built and not errs.get(k + '_ok')
        good = len(fe) == 1 and fe[0][0] == v['code'] and (not marked or fe[0][1] in marked) and ok_twin
        detail = '%s: rejected with %s at line %s; twin compiles' % (v['what'], v['code'], fe[0][1] if fe else '?')
        if not good:
            detail = '%s: expected exactly one %s on the marked line and a compiling twin, got errors %s; twin ok=%s' % (v['what'], v['code'], fe, ok_twin)
        records.append({'rule': 'W', 'instance': k, 'function': 'witnesses/src/bin/%s_fail.rs' % k, 'loc': 'witnesses/src/bin/%s_fail.rs:%s' % (k, marked[0] if marked else '?'),
                        'verdict': 'pass' if good else 'fail', 'detail': detail, 'profile': 'rustc', **({} if good else {'kind': 'violated'})})
    return 0, {'records': records, 'witnesses': len(records), 'witnesses_held': len([r for r in records if r['verdict'] == 'pass'])}
