"""E2 program database: functions, CFGs, dominance, provenance, guards, call graph.

Everything here works on the JSON facts written by the woodfacts driver (MIR at
opt-level 0 of the type-checked program).  Nothing executes the analysed code.
"""
import collections
import glob
import json
import re
import os


class Unrecognised(Exception):
    """An anchor is missing or a construct has a form a rule does not know.

    Rules fail closed: this is reported as a violation of kind `unrecognised`,
    never as a pass."""


# --------------------------------------------------------------------------
# expressions reconstructed from MIR def-use chains


class E:
    """A small expression tree.  kind in:
    const, param, call, binop, unop, cast, ref, proj, discr, agg, phi, local, other
    """
    __slots__ = ('kind', 'a', 'b', 'op', 'args', 'info', 'bb', 'pos', '_hn')

    def __init__(self, kind, a=None, b=None, op=None, args=None, info=None, bb=None):
        self.kind = kind
        self.a = a
        self.b = b
        self.op = op
        self.args = args or []
        self.info = info or {}
        self.bb = bb
        self.pos = None

    # --- structure helpers
    def children(self):
        out = []
        if isinstance(self.a, E):
            out.append(self.a)
        if isinstance(self.b, E):
            out.append(self.b)
        out.extend(self.args)
        return out

    def walk(self, seen=None):
        if seen is None:
            seen = set()
        if id(self) in seen:
            return
        seen.add(id(self))
        yield self
        for c in self.children():
            yield from c.walk(seen)

    def strip(self):
        """Remove refs, derefs, copies, int/ptr casts and unsizing around a value."""
        e = self
        while True:
            if e.kind == 'ref':
                e = e.a
            elif e.kind == 'proj' and e.op == 'deref':
                e = e.a
            elif e.kind == 'cast':
                e = e.a
            else:
                return e

    def is_const_int(self, v=None):
        e = self.strip()
        if e.kind != 'const' or e.info.get('int') is None:
            return False
        return v is None or e.info['int'] == v

    def const_int(self):
        e = self.strip()
        if e.kind == 'const':
            return e.info.get('int')
        return None

    def calls(self, suffix=None):
        for n in self.walk():
            if n.kind != 'call':
                continue
            if suffix is None or (isinstance(suffix, Fn) and n.info.get('key') == suffix.key) or \
                    (not isinstance(suffix, Fn) and name_matches(n.op, suffix)):
                yield n

    def has_call(self, suffix):
        return any(True for _ in self.calls(suffix))

    def fields(self):
        """names of fields read anywhere in the tree"""
        return {n.info.get('n') for n in self.walk() if n.kind == 'proj' and n.op == 'field'}

    def params(self):
        return {n.info['i'] for n in self.walk() if n.kind == 'param'}

    def consts(self):
        return [n for n in self.walk() if n.kind == 'const']

    def __repr__(self):
        return show(self)


def show(e, depth=0):
    if depth > 14:
        return '…'
    k = e.kind
    d = depth + 1
    if k == 'const':
        i = e.info
        if i.get('namedp'):
            return i['namedp'].split('::')[-1] + ('=%s' % i['int'] if i.get('int') is not None else '')
        if i.get('int') is not None:
            return str(i['int'])
        if i.get('fnp'):
            return 'fn ' + short(i['fnp'])
        if i.get('staticp'):
            return 'static ' + short(i['staticp'])
        if i.get('bytes') is not None:
            return 'bytes:' + i['bytes'][:16]
        return 'const<%s>' % i.get('ty', '?')
    if k == 'param':
        return 'arg%d%s' % (e.info['i'], ('(%s)' % e.info['name']) if e.info.get('name') else '')
    if k == 'call':
        return '%s(%s)' % (short(e.op), ', '.join(show(a, d) for a in e.args))
    if k == 'binop':
        return '%s(%s, %s)' % (e.op, show(e.a, d), show(e.b, d))
    if k == 'unop':
        return '%s(%s)' % (e.op, show(e.a, d))
    if k == 'cast':
        return '(%s as %s)' % (show(e.a, d), e.info.get('ty', '?'))
    if k == 'ref':
        return '&' + show(e.a, d)
    if k == 'proj':
        if e.op == 'deref':
            return '*' + show(e.a, d)
        if e.op == 'field':
            return '%s.%s' % (show(e.a, d), e.info.get('n'))
        if e.op == 'index':
            return '%s[%s]' % (show(e.a, d), show(e.b, d) if e.b else '?')
        if e.op == 'downcast':
            return '%s as %s' % (show(e.a, d), e.info.get('n'))
        return '%s.<%s>' % (show(e.a, d), e.op)
    if k == 'discr':
        return 'discr(%s)' % show(e.a, d)
    if k == 'agg':
        nm = e.info.get('variant') or short(e.info.get('name', '')) or e.info.get('ak')
        return '%s{%s}' % (nm, ', '.join(show(a, d) for a in e.args))
    if k == 'phi':
        return 'phi(%s)' % ' | '.join(show(a, d) for a in e.args)
    if k == 'local':
        return '_%s' % e.info.get('l')
    return '<%s>' % k


def short(name):
    """Last two path segments of a pretty name, for messages."""
    if not name:
        return '?'
    if name.startswith('<'):
        return name
    parts = name.split('::')
    return '::'.join(parts[-2:])


def name_matches(name, suffix):
    """`suffix` matches a pretty name if equal, or name ends with '::'+suffix.
    For `<T as Trait>::m` names a suffix such as 'Deref>::deref' or the full text matches."""
    if not name:
        return False
    if name == suffix:
        return True
    if name.endswith('::' + suffix):
        return True
    if name.startswith('<') and name.endswith(suffix):
        return True
    return False


# --------------------------------------------------------------------------


class Pos(collections.namedtuple('Pos', 'bb idx')):
    """A program point: statement `idx` of block `bb`; idx == len(statements) is the terminator."""


class Fn:
    def __init__(self, d, crate):
        self.d = d
        self.crate = crate
        self.key = d['key']
        self.name = d['name']
        self.kind = d['kind']
        self.blocks = d['blocks']
        self.n = len(self.blocks)
        self.argc = d['argc']
        self.locals = d['locals']
        self.file = d['file']
        self.line = d['line']
        self.debug = {}
        for k, v in d.get('debug', {}).items():
            self.debug.setdefault(v, k.rsplit('#', 1)[0])
        self._succs = None
        self._preds = None
        self._defs = None
        self._dom = None
        self._expr_cache = {}

    def __repr__(self):
        return '<Fn %s>' % self.name

    def loc(self, bb=None, idx=None):
        f = self.file.split('/repo/')[-1]
        if f.startswith('/'):
            f = os.path.basename(f)
        if bb is None:
            return '%s:%s' % (f, self.line)
        blk = self.blocks[bb]
        if idx is not None and idx < len(blk['st']):
            return '%s:%s' % (f, blk['st'][idx].get('line', '?'))
        return '%s:%s' % (f, blk['term'].get('line', self.line))

    # ------------------------------------------------------------- CFG
    def term(self, b):
        return self.blocks[b]['term']

    def _succ(self, b):
        t = self.blocks[b]['term']
        k = t['k']
        if k == 'goto':
            return [t['t']]
        if k == 'switch':
            out = []
            for x in t['ts']:
                if x[1] not in out:
                    out.append(x[1])
            if t['o'] not in out:
                out.append(t['o'])
            return out
        if k in ('drop', 'assert'):
            return [t['t']]
        if k == 'call':
            return [t['t']] if t['t'] >= 0 else []
        return []

    def succs(self):
        if self._succs is None:
            self._succs = [self._succ(b) for b in range(self.n)]
            # an otherwise-edge into an `unreachable` block is not an edge
        return self._succs

    def preds(self):
        if self._preds is None:
            p = [[] for _ in range(self.n)]
            for b, ss in enumerate(self.succs()):
                for s in ss:
                    p[s].append(b)
            self._preds = p
        return self._preds

    def returns(self):
        return [b for b in range(self.n) if self.blocks[b]['term']['k'] == 'return']

    def reachable(self, start=0, cut_edges=(), cut_blocks=()):
        cut_edges = set(cut_edges)
        cut_blocks = set(cut_blocks)
        seen = set()
        st = [start] if not isinstance(start, (list, tuple, set)) else list(start)
        while st:
            b = st.pop()
            if b in seen or b in cut_blocks:
                continue
            seen.add(b)
            for s in self.succs()[b]:
                if (b, s) in cut_edges:
                    continue
                st.append(s)
        return seen

    def live_blocks(self):
        return self.reachable(0)

    def dominators(self):
        if self._dom is None:
            reach = self.reachable()
            dom = {b: set(reach) for b in reach}
            dom[0] = {0}
            preds = self.preds()
            changed = True
            order = sorted(reach)
            while changed:
                changed = False
                for b in order:
                    if b == 0:
                        continue
                    ps = [p for p in preds[b] if p in reach]
                    new = set.intersection(*[dom[p] for p in ps]) if ps else set()
                    new = new | {b}
                    if new != dom[b]:
                        dom[b] = new
                        changed = True
            self._dom = dom
        return self._dom

    def dominates(self, a, b):
        """block a dominates block b (both reachable)"""
        return a in self.dominators().get(b, set())

    def pos_dominates(self, p, q):
        """position p dominates position q"""
        if p.bb == q.bb:
            return p.idx <= q.idx
        return self.dominates(p.bb, q.bb)

    def path(self, start, goal_blocks, cut_edges=(), cut_blocks=()):
        """A shortest block path from start to any goal block (BFS), or None."""
        cut_edges = set(cut_edges)
        cut_blocks = set(cut_blocks)
        goal = set(goal_blocks)
        starts = [start] if not isinstance(start, (list, tuple, set)) else list(start)
        prev = {}
        q = collections.deque()
        for s in starts:
            if s in cut_blocks:
                continue
            prev[s] = None
            q.append(s)
        while q:
            b = q.popleft()
            if b in goal:
                out = []
                while b is not None:
                    out.append(b)
                    b = prev[b]
                return list(reversed(out))
            for s in self.succs()[b]:
                if s in prev or s in cut_blocks or (b, s) in cut_edges:
                    continue
                prev[s] = b
                q.append(s)
        return None

    def show_path(self, path):
        if not path:
            return '(no path)'
        return ' -> '.join('bb%d@%s' % (b, self.loc(b).split(':')[-1]) for b in path)

    def back_edges(self):
        """edges (a, b) where b dominates a"""
        out = []
        live = self.live_blocks()
        for a in live:
            for b in self.succs()[a]:
                if b in live and self.dominates(b, a):
                    out.append((a, b))
        return out

    def is_acyclic(self, cut_edges=()):
        cut = set(cut_edges)
        live = self.reachable(0, cut_edges=cut)
        color = {}
        for root in sorted(live):
            if root in color:
                continue
            stack = [(root, iter(self.succs()[root]))]
            color[root] = 1
            while stack:
                b, it = stack[-1]
                adv = False
                for s in it:
                    if (b, s) in cut or s not in live:
                        continue
                    if color.get(s) == 1:
                        return False
                    if s not in color:
                        color[s] = 1
                        stack.append((s, iter(self.succs()[s])))
                        adv = True
                        break
                if not adv:
                    color[b] = 2
                    stack.pop()
        return True

    def loop_blocks(self, header):
        """natural loop body of all back edges into header"""
        body = {header}
        st = [a for (a, b) in self.back_edges() if b == header]
        while st:
            x = st.pop()
            if x in body:
                continue
            body.add(x)
            st.extend(self.preds()[x])
        return body

    def loop_headers(self):
        return sorted({b for (_, b) in self.back_edges()})

    # --------------------------------------------------- events / positions
    def term_pos(self, b):
        return Pos(b, len(self.blocks[b]['st']))

    def calls(self, suffix=None, live_only=True):
        live = self.live_blocks() if live_only else None
        for bi, b in enumerate(self.blocks):
            if live is not None and bi not in live:
                continue
            t = b['term']
            if t['k'] == 'call':
                cs = CallSite(self, bi, t)
                if suffix is None or cs.matches(suffix):
                    yield cs

    def statements(self, live_only=True):
        live = self.live_blocks() if live_only else None
        for bi, b in enumerate(self.blocks):
            if live is not None and bi not in live:
                continue
            for si, st in enumerate(b['st']):
                yield Pos(bi, si), st

    def escapes(self, start, avoid=(), avoid_edges=(), goals=None):
        """Is there a path from just after position `start` to a goal block (default: any
        `return`) that passes no position in `avoid` and takes no edge in `avoid_edges`?
        Returns the witness block path or None."""
        avoid_by_block = collections.defaultdict(list)
        for p in avoid:
            avoid_by_block[p.bb].append(p.idx)
        goals = set(self.returns() if goals is None else goals)
        avoid_edges = set(avoid_edges)
        # is the rest of the start block clean?
        if any(i > start.idx for i in avoid_by_block.get(start.bb, [])):
            return None
        if start.bb in goals and start.idx <= len(self.blocks[start.bb]['st']):
            return [start.bb]
        blocked = {b for b in avoid_by_block}
        nexts = [s for s in self.succs()[start.bb] if (start.bb, s) not in avoid_edges and s not in blocked]
        p = self.path(nexts, goals, cut_edges=avoid_edges, cut_blocks=blocked)
        if p is None:
            return None
        return [start.bb] + p

    # ------------------------------------------------------ defs / exprs
    def defs(self):
        """local -> list of (kind, obj, Pos, proj) for assignments whose place does not go
        through a deref (those are stores to memory, see `stores`)."""
        if self._defs is None:
            d = collections.defaultdict(list)
            for bi, b in enumerate(self.blocks):
                for si, st in enumerate(b['st']):
                    if st['k'] == 'assign':
                        pl = st['pl']
                        if any(x['k'] == 'deref' for x in pl['p']):
                            continue
                        if pl['p'] and 1 <= pl['l'] <= self.argc:
                            # a field of a by-value parameter (`mut self`) is object state like a field behind
                            # `&mut self`: a store (see `stores`), not a definition -- reads of the field always
                            # denote "the current value of self.field", whichever way self is passed
                            continue
                        d[pl['l']].append(('assign', st, Pos(bi, si), pl['p']))
                t = b['term']
                if t['k'] == 'call':
                    pl = t['dest']
                    if any(x['k'] == 'deref' for x in pl['p']):
                        continue
                    d[pl['l']].append(('call', t, Pos(bi, len(b['st'])), pl['p']))
            self._defs = d
        return self._defs

    def stores(self):
        """assignments through a deref: yields (Pos, place, rvalue-or-None(call dest))"""
        for pos, st in self.statements():
            if st['k'] == 'assign' and (any(x['k'] == 'deref' for x in st['pl']['p']) or
                                        (st['pl']['p'] and 1 <= st['pl']['l'] <= self.argc)):
                # (a field of a by-value parameter -- `mut self` -- is state of the object all the same)
                yield pos, st['pl'], st['rv']
        for cs in self.calls():
            if any(x['k'] == 'deref' for x in cs.t['dest']['p']):
                yield cs.pos, cs.t['dest'], None

    def reaching_defs(self, l, pos):
        """Definitions of whole local `l` that may reach program point `pos` (flow-sensitive):
        list of ('entry', None) and/or (kind, Pos) entries."""
        ds = [(k, p) for (k, o, p, proj) in self.defs().get(l, []) if not proj]
        dpos = [p for k, p in ds]
        out = []

        def reaches(start, is_entry=False):
            # path from just after `start` to pos without crossing another def of l
            others = [p for p in dpos if is_entry or p != start]
            by_block = collections.defaultdict(list)
            for p in others:
                by_block[p.bb].append(p.idx)
            sb, si = (0, -1) if is_entry else (start.bb, start.idx)
            if sb == pos.bb and si < pos.idx and not any(si < i < pos.idx for i in by_block.get(sb, [])):
                return True
            if any(i > si for i in by_block.get(sb, [])):
                return False
            seen = set()
            st = list(self.succs()[sb])
            while st:
                b = st.pop()
                if b in seen:
                    continue
                seen.add(b)
                idxs = by_block.get(b, [])
                if b == pos.bb:
                    if not any(i < pos.idx for i in idxs):
                        return True
                    continue
                if idxs:
                    continue
                st.extend(self.succs()[b])
            return False
        if 1 <= l <= self.argc and reaches(None, True):
            out.append(('entry', None))
        for k, p in ds:
            if reaches(p):
                out.append((k, p))
        return out

    def local_name(self, l):
        return self.debug.get(l)

    def operand_expr(self, o, depth=0, stack=None):
        k = o['k']
        if k in ('copy', 'move'):
            return self.place_expr(o['pl'], depth, stack)
        if k == 'const':
            info = dict(o)
            if info.get('int') is not None:
                try:
                    info['int'] = int(info['int'])
                except ValueError:
                    info['int'] = None
            else:
                info['int'] = None
            return E('const', info=info)
        return E('other')

    def place_expr(self, pl, depth=0, stack=None):
        base = self.local_expr(pl['l'], pl['p'], depth, stack)
        return base

    def local_expr(self, l, proj, depth=0, stack=None):
        """Expression of place (local l, projections proj)."""
        if stack is None:
            stack = frozenset()
        if depth > 40 or l in stack:
            e = E('local', info={'l': l})
            return self._apply_proj(e, proj, depth, stack)
        stack2 = stack | {l}
        ds = self.defs().get(l, [])
        cands = []
        used_proj = proj
        is_param = 1 <= l <= self.argc
        if is_param:
            cands.append((E('param', info={'i': l, 'name': self.local_name(l), 'ty': self.locals[l]}), proj))
        for kind, obj, pos, dproj in ds:
            # relevance of a def through a projection
            if dproj:
                n = min(len(dproj), len(proj))
                if not all(_proj_eq(dproj[i], proj[i]) for i in range(n)):
                    continue
                if len(dproj) > len(proj):
                    # partial write of a sub-place of what we read: conservative, include
                    rest = []
                else:
                    rest = proj[len(dproj):]
            else:
                rest = proj
            if kind == 'call':
                e = self.call_expr(obj, pos.bb, depth + 1, stack2)
            elif obj['rv']['k'] == 'use' and obj['rv']['o']['k'] in ('copy', 'move') and rest:
                # a copy of a place: carry the remaining projection to the source place
                pl = obj['rv']['o']['pl']
                e = self.local_expr(pl['l'], list(pl['p']) + list(rest), depth + 1, stack2)
                cands.append((e, []))
                continue
            elif obj['rv']['k'] in ('ref', 'rawptr') and rest and rest[0]['k'] == 'deref':
                # (*r).f with r = &P  is  P.f : project on the place itself, so that stores to sibling fields of P
                # are not taken for definitions of the field read here
                pl = obj['rv']['pl']
                e = self.local_expr(pl['l'], list(pl['p']) + list(rest[1:]), depth + 1, stack2)
                cands.append((e, []))
                continue
            else:
                e = self.rvalue_expr(obj['rv'], depth + 1, stack2)
                if e.pos is None and e.kind not in ('const', 'param'):
                    e.pos = pos
            cands.append((e, rest))
        if not cands:
            e = E('local', info={'l': l, 'ty': self.locals[l] if l < len(self.locals) else '?'})
            return self._apply_proj(e, proj, depth, stack)
        outs = [self._apply_proj(e, rest, depth, stack) for e, rest in cands]
        # `(x as Some).0` where one definition of x is the literal `None`: that definition cannot be the one read
        # (nor can a value computed from such an impossible read: `deref(&(Borrowed{..} as Owned).0)`)
        live = [o for o in outs if not _has_never(o)]
        outs = live or [o for o in outs if o.kind != 'never'] or outs[:1]
        if len(outs) == 1:
            return outs[0]
        return E('phi', args=outs, info={'l': l})

    def _apply_proj(self, e, proj, depth, stack):
        for x in proj:
            if e.kind == 'never':
                return e
            k = x['k']
            if k == 'field' and e.kind == 'binop' and e.op.endswith('WithOverflow'):
                if x['i'] == 0:
                    ne = E('binop', op=e.op[:-len('WithOverflow')], a=e.a, b=e.b, info={'checked': True})
                    ne.pos = e.pos
                    e = ne
                else:
                    e = E('unop', op='Overflowed', a=e)
            elif k == 'field' and x.get('union') and e.kind == 'agg' and len(e.args) == 1:
                # reading a union literal through any field = a transmute of its one operand
                e = E('cast', a=e.args[0], info={'ck': 'UnionTransmute', 'ty': x.get('ty', ''), 'field': x['n']})
            elif k == 'field':
                # field of an aggregate literal: pick the operand
                if e.kind == 'agg' and e.info.get('ak') in ('tuple', 'adt', 'closure') and x['i'] < len(e.args) \
                        and e.info.get('fieldwise', True):
                    e = e.args[x['i']]
                else:
                    e = E('proj', a=e, op='field', info={'n': x['n'], 'i': x['i'], 'adt': x.get('adt', ''),
                                                           'ty': x.get('ty', ''), 'union': x.get('union', False)})
            elif k == 'deref':
                if e.kind == 'ref':
                    e = e.a
                else:
                    e = E('proj', a=e, op='deref', info={'raw': x.get('raw', False)})
            elif k == 'index':
                # the index is a value of its own: cycles through it are cut by the depth bound, not by the chain of
                # locals being resolved for the base place
                e = E('proj', a=e, b=self.local_expr(x['l'], [], depth + 8, frozenset()), op='index')
            elif k == 'downcast':
                if e.kind == 'never':
                    pass
                elif e.kind == 'agg' and e.info.get('ak') == 'adt' and e.info.get('variant') and x.get('n'):
                    # the variant of an enum literal is known: the same one is read through, another one is dead
                    if e.info['variant'] != x['n']:
                        e = E('never')
                elif e.kind == 'phi' and x.get('n') and e.args and all(
                        c.kind == 'agg' and c.info.get('ak') == 'adt' and c.info.get('variant') for c in e.args):
                    # a join of enum literals read through one variant: only the candidates of that variant are read
                    live = [c for c in e.args if c.info['variant'] == x['n']]
                    e = E('never') if not live else (live[0] if len(live) == 1 else E('phi', args=live, info=dict(e.info)))
                else:
                    e = E('proj', a=e, op='downcast', info={'n': x.get('n', ''), 'v': x.get('v')})
            else:
                e = E('proj', a=e, op=k, info=dict(x))
        return e

    def call_expr(self, t, bb, depth=0, stack=None):
        args = [self.operand_expr(a, depth + 1, stack) for a in t['args']]
        # `a.checked_sub(b).expect(..)` / `.unwrap()` is the checked `a - b` of a debug build spelled out: one expression
        nm = callee_name(t)
        if args and nm.rsplit('::', 1)[-1] in ('expect', 'unwrap') and 'ption' in nm:
            inner = args[0].strip()
            op = {'checked_add': 'Add', 'checked_sub': 'Sub', 'checked_mul': 'Mul'}.get(inner.op.rsplit('::', 1)[-1]) if inner.kind == 'call' and inner.op else None
            if op and len(inner.args) == 2:
                e = E('binop', op=op, a=inner.args[0], b=inner.args[1], bb=bb, info={'checked': True, 'line': t.get('line')})
                e.pos = Pos(bb, len(self.blocks[bb]['st']))
                return e
        if len(args) == 1 and nm.endswith('Try>::branch') and ('Result' in nm or 'Option' in nm):
            # `?` on an Option / Result *literal* (a helper returning Ok(..) / Err(..) was spliced in): branch(Ok(x)) is
            # Continue(x), branch(Err(e)) is Break(Err(e)) -- core's impls; the variant reads fold as for any literal
            def _branch(v):
                v = v.strip()
                if v.kind == 'agg' and v.info.get('ak') == 'adt' and v.info.get('variant') in ('Ok', 'Some') and len(v.args) == 1:
                    return E('agg', args=[v.args[0]], info={'ak': 'adt', 'name': 'core::ops::ControlFlow', 'variant': 'Continue'})
                if v.kind == 'agg' and v.info.get('ak') == 'adt' and v.info.get('variant') in ('Err', 'None'):
                    return E('agg', args=[v], info={'ak': 'adt', 'name': 'core::ops::ControlFlow', 'variant': 'Break'})
                return None
            a0 = args[0].strip()
            outs = [_branch(x) for x in a0.args] if a0.kind == 'phi' else [_branch(a0)]
            if outs and all(o is not None for o in outs):
                if len(outs) == 1:
                    return outs[0]
                return E('phi', args=outs, info={'l': a0.info.get('l')})
        if args and nm.rsplit('::', 1)[-1] in ('expect', 'unwrap') and 'esult' in nm:
            # `T::try_from(x).unwrap()` between integer types is `x as T` with the fit asserted: the value is the cast's
            inner = args[0].strip()
            m = re.match(r'^<([iu](?:8|16|32|64|128|size)) as (?:std|core)::convert::TryFrom<[iu](?:8|16|32|64|128|size)>>::try_from$', inner.op or '') \
                if inner.kind == 'call' else None
            if m and len(inner.args) == 1:
                return E('cast', a=inner.args[0], info={'ck': 'IntToInt', 'ty': m.group(1), 'checked': True})
        e = E('call', op=callee_name(t), args=args, bb=bb,
                 info={'line': t.get('line'), 'callee': t.get('calleep'), 'gen': t.get('gen', ''),
                       'local': t.get('local'), 'key': t.get('res') or t.get('callee')})
        e.pos = Pos(bb, len(self.blocks[bb]['st']))
        return e

    def rvalue_expr(self, rv, depth=0, stack=None):
        k = rv['k']
        if k == 'use':
            return self.operand_expr(rv['o'], depth, stack)
        if k == 'ref' or k == 'rawptr':
            return E('ref', a=self.place_expr(rv['pl'], depth, stack), info={'mut': rv.get('mut'), 'raw': k == 'rawptr'})
        if k == 'binop':
            a, b = self.operand_expr(rv['a'], depth, stack), self.operand_expr(rv['b'], depth, stack)
            if rv['op'] in ('Shr', 'ShrUnchecked') and b.kind == 'const' and isinstance(b.info.get('int'), int) and 0 < b.info['int'] < 64:
                # x >> k on the unsigned sizes and counts of this workspace is x / 2^k: one spelling for the rules
                return E('binop', op='Div', a=a, b=E('const', info={'int': 2 ** b.info['int'], 'ty': b.info.get('ty', 'usize'), 'from_shift': True}))
            return E('binop', op=rv['op'], a=a, b=b)
        if k == 'unop':
            return E('unop', op=rv['op'], a=self.operand_expr(rv['a'], depth, stack))
        if k == 'cast':
            return E('cast', a=self.operand_expr(rv['o'], depth, stack), info={'ck': rv['ck'], 'ty': rv['ty']})
        if k == 'discr':
            return E('discr', a=self.place_expr(rv['pl'], depth, stack))
        if k == 'agg':
            return E('agg', args=[self.operand_expr(o, depth, stack) for o in rv['ops']],
                     info={'ak': rv['ak'], 'name': rv['name'], 'variant': rv['variant']})
        if k == 'repeat':
            return E('agg', args=[self.operand_expr(rv['o'], depth, stack)], info={'ak': 'repeat', 'fieldwise': False})
        if k == 'tlsref':
            return E('const', info={'static': rv['static'], 'int': None})
        return E('other', info={'dbg': rv.get('dbg', k)})

    # ------------------------------------------------------ guards
    def switch_expr(self, b):
        t = self.blocks[b]['term']
        if t['k'] != 'switch':
            return None
        return self.operand_expr(t['d'])

    def edge_values(self, b):
        """For a switch block: dict succ -> set of discriminant values ('otherwise' for the default)."""
        t = self.blocks[b]['term']
        out = collections.defaultdict(set)
        for v, tgt in t['ts']:
            out[tgt].add(int(v))
        out[t['o']].add('otherwise')
        return out

    def switch_ty(self, b):
        t = self.blocks[b]['term']
        d = t.get('d') or {}
        if d.get('k') == 'const':
            return d.get('ty', '')
        if d.get('k') in ('copy', 'move'):
            pl = d['pl']
            if not pl['p']:
                return self.locals[pl['l']]
            return pl['p'][-1].get('ty', '')
        return ''

    def bool_edges(self, b):
        """For a switch on a boolean: (false_target, true_target), else None."""
        t = self.blocks[b]['term']
        if t['k'] != 'switch':
            return None
        if len(t['ts']) == 1 and t['ts'][0][0] == '0' and self.switch_ty(b) == 'bool':
            return (t['ts'][0][1], t['o'])
        return None

    def edge_facts(self, b, s):
        """Atomic facts implied by taking edge (b, s): list of (E, value) where value is
        True/False for boolean conditions, or ('variant', set_of_values) for discriminants."""
        t = self.blocks[b]['term']
        if t['k'] == 'assert':
            c = self.operand_expr(t['c'])
            return flatten_bool(c, bool(t['e']))
        if t['k'] != 'switch':
            return []
        e = self.switch_expr(b)
        be = self.bool_edges(b)
        ty = t['d'].get('ty') or ''
        if be is not None and not (e.kind == 'discr'):
            f, tr = be
            if s == f and s != tr:
                return flatten_bool(e, False)
            if s == tr and s != f:
                facts = flatten_bool(e, True)
                extra = []
                for x, v in facts:
                    if v is True:
                        extra.extend(closure_predicate_facts(getattr(self, 'prog', None), x))
                return facts + extra
            return []
        vals = self.edge_values(b).get(s, set())
        if 'otherwise' in vals:
            others = set()
            for tgt, vs in self.edge_values(b).items():
                if tgt != s:
                    others |= {v for v in vs if v != 'otherwise'}
            return [(e, ('not', frozenset(others)))]
        return [(e, ('in', frozenset(vals)))]

    def mandatory_edges(self, site_bb):
        """Edges (b, s) of switches/asserts that every path from entry to site_bb takes."""
        out = []
        dom = self.dominators().get(site_bb, set())
        for b in sorted(dom):
            t = self.blocks[b]['term']
            if t['k'] == 'assert':
                if b != site_bb:
                    out.append((b, t['t']))
                continue
            if t['k'] != 'switch':
                continue
            if b == site_bb:
                continue
            ss = self.succs()[b]
            if len(ss) < 2:
                continue
            for s in ss:
                if site_bb not in self.reachable(0, cut_edges=[(b, s)]):
                    out.append((b, s))
        if self._variant_tracking():
            # an acyclic body that builds an enum on several paths and tests it after they join (`let Some(x) = helper()
            # else ..` with the helper spliced in): paths that contradict the variant they built are not paths.
            # Edges every *feasible* path takes:
            have = set(out)
            for b in sorted(r for r in self.reachable(0) if r != site_bb):
                t = self.blocks[b]['term']
                if t['k'] != 'switch':
                    continue
                ss = self.succs()[b]
                if len(ss) < 2:
                    continue
                for s in ss:
                    if (b, s) not in have and self._feasibly_reaches(site_bb) and not self._feasibly_reaches(site_bb, cut=(b, s)) \
                            and self._feasibly_reaches(site_bb, must=(b, s)):
                        out.append((b, s))
        return out

    _VARIANT_INDEX = {'None': 0, 'Some': 1, 'Ok': 0, 'Err': 1}

    def _variant_tracking(self):
        """True when pruning by known enum variants applies: acyclic body, some plain local is assigned an Option / Result
        aggregate and some discriminant of a plain local is switched on."""
        if getattr(self, '_vt', None) is None:
            ok = False
            if self.n <= 400 and self.is_acyclic():
                aggs = any(st['k'] == 'assign' and not st['pl']['p'] and st['rv']['k'] == 'agg' and st['rv'].get('variant') in self._VARIANT_INDEX
                           for b in self.blocks for st in b['st'])
                discrs = any(st['k'] == 'assign' and st['rv']['k'] == 'discr' and not st['rv']['pl']['p'] for b in self.blocks for st in b['st'])
                ok = aggs and discrs
            self._vt = ok
            self._mut_borrowed = set()
            for b in self.blocks:
                for st in b['st']:
                    if st['k'] == 'assign' and st['rv']['k'] in ('ref', 'rawptr') and st['rv'].get('mut') and not st['rv']['pl']['p']:
                        self._mut_borrowed.add(st['rv']['pl']['l'])
            self._feas_memo = {}
        return self._vt

    def _feasibly_reaches(self, goal, cut=None, must=None):
        """Is there a path from entry to block `goal` (avoiding edge `cut`, passing edge `must`) that never takes a switch
        edge contradicting the Option/Result variant the path itself assigned to the tested local?"""
        key = (goal, cut, must)
        if key in self._feas_memo:
            return self._feas_memo[key]
        succs = self.succs()
        seen = set()
        stack = [(0, frozenset(), frozenset(), must is None)]
        found = False
        while stack and not found:
            b, known, dmap, passed = stack.pop()
            if (b, known, dmap, passed) in seen:
                continue
            seen.add((b, known, dmap, passed))
            if b == goal and passed:
                found = True
                break
            if b == goal:
                continue
            kn, dm = dict(known), dict(dmap)
            for st in self.blocks[b]['st']:
                if st['k'] != 'assign':
                    continue
                pl, rv = st['pl'], st['rv']
                if pl['p']:
                    if pl['l'] in kn and not any(x['k'] == 'deref' for x in pl['p']):
                        pass    # a field store does not change the variant
                    continue
                l = pl['l']
                kn.pop(l, None)
                dm.pop(l, None)
                for d_, x_ in list(dm.items()):
                    if x_ == l:
                        dm.pop(d_)
                if l in self._mut_borrowed:
                    continue
                if rv['k'] == 'agg' and rv.get('variant') in self._VARIANT_INDEX and rv.get('ak') == 'adt' and \
                        rv.get('name', '').rsplit('::', 1)[-1] in ('Option', 'Result'):
                    kn[l] = self._VARIANT_INDEX[rv['variant']]
                elif rv['k'] == 'use' and rv['o']['k'] in ('copy', 'move') and not rv['o']['pl']['p'] and rv['o']['pl']['l'] in kn:
                    kn[l] = kn[rv['o']['pl']['l']]
                elif rv['k'] == 'discr' and not rv['pl']['p']:
                    dm[l] = rv['pl']['l']
            t = self.blocks[b]['term']
            if t['k'] == 'call' and t.get('dest') and not t['dest']['p']:
                kn.pop(t['dest']['l'], None)
            edges = []
            if t['k'] == 'switch' and t['d'].get('k') in ('copy', 'move') and not t['d']['pl']['p'] and t['d']['pl']['l'] in dm:
                x = dm[t['d']['pl']['l']]
                vals = {int(v): tg for v, tg in t['ts']}
                if x in kn:
                    edges = [(vals.get(kn[x], t['o']), kn)]
                else:
                    for v, tg in vals.items():
                        k2 = dict(kn)
                        if x not in self._mut_borrowed and v in (0, 1):
                            k2[x] = v
                        edges.append((tg, k2))
                    if len(vals) == 1 and set(vals) <= {0, 1} and x not in self._mut_borrowed:
                        k2 = dict(kn)
                        k2[x] = 1 - next(iter(vals))
                        edges.append((t['o'], k2))
                    else:
                        edges.append((t['o'], kn))
            else:
                edges = [(s_, kn) for s_ in succs[b]]
            live = set(succs[b])
            for s_, k2 in edges:
                if s_ not in live or (cut is not None and ((b, s_) == cut or (isinstance(cut, frozenset) and (b, s_) in cut))):
                    continue
                stack.append((s_, frozenset(k2.items()), frozenset(dm.items()), passed or (b, s_) == must))
        self._feas_memo[key] = found
        return found

    def facts_at(self, site_bb):
        """All atomic facts that hold whenever control reaches site_bb (via mandatory edges)."""
        out = []
        for (b, s) in self.mandatory_edges(site_bb):
            for f in self.edge_facts(b, s):
                out.append((f[0], f[1], (b, s)))
        return out

    def is_cut(self, edges, sink_bbs):
        r = self.reachable(0, cut_edges=edges)
        if not any(s in r for s in sink_bbs):
            return True
        # (paths that contradict the Option / Result variant they built themselves are not paths: see _feasibly_reaches)
        if self._variant_tracking():
            ce = frozenset((int(a), int(b)) for a, b in edges)
            return not any(self._feasibly_reaches(s, cut=ce) for s in sink_bbs)
        return False


def _has_never(e, depth=0):
    """Does the expression read an enum literal through a variant it is not (an E('never') leaf)?  Memoised per node."""
    if not isinstance(e, E):
        return False
    r = getattr(e, '_hn', None)
    if r is not None:
        return r
    if e.kind == 'never':
        r = True
    elif e.kind == 'phi' or depth > 40:
        r = False        # a join has other ways to its value
    else:
        e._hn = False   # (cycle guard)
        r = _has_never(e.a, depth + 1) or _has_never(e.b, depth + 1) or any(_has_never(x, depth + 1) for x in e.args)
    e._hn = r
    return r


def subst(e, f, memo=None):
    """Copy of expression tree e with every node n for which f(n) is not None replaced by f(n)."""
    if memo is None:
        memo = {}
    if id(e) in memo:
        return memo[id(e)]
    r = f(e)
    if r is not None:
        memo[id(e)] = r
        return r
    n = E(e.kind, op=e.op, info=e.info, bb=e.bb)
    n.pos = e.pos
    memo[id(e)] = n
    n.a = subst(e.a, f, memo) if isinstance(e.a, E) else e.a
    n.b = subst(e.b, f, memo) if isinstance(e.b, E) else e.b
    n.args = [subst(x, f, memo) for x in e.args]
    return n


def closure_predicate_facts(prog, e):
    """`opt.is_some_and(|x| p(x))` known to be true: opt is Some and p holds of its payload.  Returns the extra
    facts [(expr, truth)] (empty when e is not that idiom or the closure cannot be found)."""
    c = e.strip()
    if prog is None or c.kind != 'call' or not c.op.endswith('is_some_and') or 'Option' not in c.op or len(c.args) != 2:
        return []
    agg = c.args[1].strip()
    if agg.kind != 'agg' or agg.info.get('ak') != 'closure':
        return []
    cl = prog.fns.get(agg.info.get('name')) or (prog.by_name.get(agg.info.get('name')) or [None])[0]
    if cl is None or cl.argc != 2:
        return []
    opt = c.args[0]
    payload = E('proj', a=E('proj', a=opt, op='downcast', info={'n': 'Some', 'v': 1}), op='field', info={'i': 0, 'n': '0'})

    def rep(n):
        if n.kind == 'param' and n.info.get('i') == 2:
            return payload
        if n.kind == 'proj' and n.op == 'field' and isinstance(n.a, E):
            base = n.a.strip()
            if base.kind == 'param' and base.info.get('i') == 1 and n.info.get('i') is not None and n.info['i'] < len(agg.args):
                return agg.args[n.info['i']]
        return None
    body = subst(cl.local_expr(0, []), rep)
    return [(E('discr', a=opt), ('in', frozenset([1])))] + flatten_bool(body, True)


def _proj_eq(a, b):
    if a['k'] != b['k']:
        return False
    if a['k'] == 'field':
        return a['i'] == b['i']
    if a['k'] == 'downcast':
        return a.get('v') == b.get('v')
    return True


def flatten_bool(e, truth):
    """Decompose a boolean expression known to be `truth` into atomic facts."""
    s = e
    # look through copies
    if s.kind == 'unop' and s.op == 'Not':
        return flatten_bool(s.a, not truth)
    if s.kind == 'binop' and s.op == 'BitOr' and truth is False:
        return flatten_bool(s.a, False) + flatten_bool(s.b, False)
    if s.kind == 'binop' and s.op == 'BitAnd' and truth is True:
        return flatten_bool(s.a, True) + flatten_bool(s.b, True)
    if s.kind == 'phi' and truth in (True, False):
        # a merge of a boolean with the constant `not truth` (`match x { Some(y) => p(y), None => false }` being
        # true): only the other alternative can have produced it
        rest = [a for a in s.args if not (a.strip().kind == 'const' and a.strip().info.get('ty') == 'bool' and a.strip().info.get('int') is not None
                                         and bool(int(a.strip().info['int'])) != truth)]
        if len(rest) == 1 and len(s.args) > 1:
            return flatten_bool(rest[0], truth)
    if s.kind == 'binop' and s.op in ('Eq', 'Ne') and s.b.kind == 'const' and s.b.info.get('ty') == 'bool':
        v = bool(s.b.info.get('int'))
        want = (v == truth) if s.op == 'Eq' else (v != truth)
        return flatten_bool(s.a, want)
    return [(s, truth)]


CMP_NEG = {'Lt': 'Ge', 'Ge': 'Lt', 'Gt': 'Le', 'Le': 'Gt', 'Eq': 'Ne', 'Ne': 'Eq'}
CMP_SWAP = {'Lt': 'Gt', 'Gt': 'Lt', 'Le': 'Ge', 'Ge': 'Le', 'Eq': 'Eq', 'Ne': 'Ne'}


def as_relation(fact):
    """Normalise a fact (E, truth) whose E is a comparison into (op, lhs, rhs) that holds; else None.
    Recognises MIR BinOp comparisons and PartialOrd/PartialEq method calls."""
    e, truth = fact[0], fact[1]
    if isinstance(truth, tuple) and e.kind != 'discr' and len(truth) == 2 and truth[0] in ('in', 'not') and len(truth[1]) == 1 \
            and all(isinstance(x, int) and not isinstance(x, bool) for x in truth[1]):
        # `match n { 0 => .., _ => .. }` on an integer is a comparison with that constant
        c = next(iter(truth[1]))
        return Rel('Eq' if truth[0] == 'in' else 'Ne', e, E('const', info={'int': c, 'ty': 'usize'}))
    if isinstance(truth, tuple) and e.kind == 'discr' and e.a is not None:
        # match NonZero::new(x) { Some(_) => .., None => .. } is a test of x against zero
        c = e.a.strip()
        if c.kind == 'call' and re.search(r'NonZero(<[^>]*>)?::new$', c.op) and len(c.args) == 1:
            some = (truth[0] == 'in' and truth[1] == frozenset([1])) or (truth[0] == 'not' and truth[1] == frozenset([0]))
            none = (truth[0] == 'in' and truth[1] == frozenset([0])) or (truth[0] == 'not' and truth[1] == frozenset([1]))
            if some or none:
                return Rel('Ne' if some else 'Eq', c.args[0], E('const', info={'int': 0, 'ty': 'usize'}))
        return None
    if truth not in (True, False):
        return None
    op = None
    a = b = None
    if e.kind == 'binop' and e.op in CMP_NEG:
        op, a, b = e.op, e.a, e.b
    elif e.kind == 'call':
        last = e.op.rsplit('::', 1)[-1]
        m = {'lt': 'Lt', 'le': 'Le', 'gt': 'Gt', 'ge': 'Ge', 'eq': 'Eq', 'ne': 'Ne'}.get(last)
        if m and len(e.args) == 2 and ('PartialOrd' in e.op or 'PartialEq' in e.op or 'cmp::' in e.op):
            op, a, b = m, e.args[0], e.args[1]
    if op is None:
        return None
    if not truth:
        op = CMP_NEG[op]
    # canonical orientation: a constant goes to the right (`2 > len` is `len < 2`)
    if a.strip().kind == 'const' and b.strip().kind != 'const':
        op, a, b = CMP_SWAP[op], b, a
    # unsigned comparisons against 0 / 1 have one meaning whatever the spelling: `x <= 0` and `x < 1` are `x == 0`,
    # `x >= 1` is `x > 0`
    bc = b.strip()
    if bc.kind == 'const' and bc.info.get('int') is not None and str(bc.info.get('ty', '')) in ('u8', 'u16', 'u32', 'u64', 'u128', 'usize'):
        v = bc.info['int']
        if (op, v) in (('Le', 0), ('Lt', 1)):
            op, b = 'Eq', E('const', info=dict(bc.info, int=0))
        elif (op, v) == ('Ge', 1):
            op, b = 'Gt', E('const', info=dict(bc.info, int=0))
    return Rel(op, a, b)


class _RelOp(str):
    """The operator of a Rel.  Comparing it with the mirrored operator name re-orients the relation, so a
    rule written as `r[0] == 'Gt' and P(r[1]) and Q(r[2])` matches `a > b` and `b < a` alike."""
    __slots__ = ('rel',)

    def __eq__(self, other):
        if str.__eq__(self, other):
            return True
        if isinstance(other, str) and self.rel is not None and CMP_SWAP.get(str(self)) == other and other != str(self):
            self.rel._flip()
            return True
        return False

    def __ne__(self, other):
        return not self.__eq__(other)

    __hash__ = str.__hash__


class Rel:
    """A comparison known to hold: (op, lhs, rhs).  Indexable like the tuple it replaces; unpacking
    (`op, a, b = rel`) yields a plain operator string and the operands in their current orientation."""

    def __init__(self, op, a, b):
        self.op, self.a, self.b = op, a, b

    def _flip(self):
        self.op, self.a, self.b = CMP_SWAP[self.op], self.b, self.a

    def __getitem__(self, i):
        if i == 0:
            o = _RelOp(self.op)
            o.rel = self
            return o
        return (self.a, self.b)[i - 1]

    def __iter__(self):
        return iter((str(self.op), self.a, self.b))

    def __len__(self):
        return 3

    def __bool__(self):
        return True

    def __repr__(self):
        return 'Rel(%s, %s, %s)' % (self.op, show(self.a), show(self.b))


def callee_name(t):
    return t.get('resp') or t.get('calleep') or '?'


class CallSite:
    def __init__(self, fn, bb, t):
        self.fn = fn
        self.bb = bb
        self.t = t
        self.callee = callee_name(t)
        self.syntactic = t.get('calleep') or ''
        self.key = t.get('res') or t.get('callee') or ''
        self.pos = Pos(bb, len(fn.blocks[bb]['st']))
        self.line = t.get('line')

    def matches(self, suffix):
        if isinstance(suffix, (list, tuple, set, frozenset)):
            return any(self.matches(s) for s in suffix)
        if isinstance(suffix, Fn):
            return self.key == suffix.key
        return name_matches(self.callee, suffix) or name_matches(self.syntactic, suffix)

    def arg(self, i):
        return self.fn.operand_expr(self.t['args'][i])

    def args(self):
        return [self.fn.operand_expr(a) for a in self.t['args']]

    def nargs(self):
        return len(self.t['args'])

    def result_local(self):
        return self.t['dest']['l']

    def next_bb(self):
        return self.t['t']

    def loc(self):
        return self.fn.loc(self.bb)

    def __repr__(self):
        return '<call %s in %s at %s>' % (short(self.callee), short(self.fn.name), self.loc())


# --------------------------------------------------------------------------


class Program:
    def __init__(self, facts_dir, normalise=True, profile=None):
        self.dir = facts_dir
        self.profile = profile or os.path.basename(os.path.normpath(facts_dir))
        self.renamed = {}
        self.renamed_fields = []
        self.inlined = []
        self.desugared = []
        self.fns = {}
        self.by_name = collections.defaultdict(list)
        self.consts = {}
        self.consts_by_name = collections.defaultdict(list)
        self.adts = {}
        self.impls = []
        self.crates = []
        self.trait_impls = collections.defaultdict(list)  # trait item key -> [Fn]
        texts = []
        for f in sorted(glob.glob(os.path.join(facts_dir, '*.json'))):
            with open(f) as fh:
                texts.append(fh.read())
        if normalise:
            from . import normalize as _nz
            texts = [_nz.apply_callee_aliases(t) for t in texts]
        from . import normalize as _nzf
        crates = [json.loads(t) for t in texts]
        for d in crates:
            for fd in d['fns']:
                _nzf.fold_const_switches(fd)
        table = None
        if normalise:
            from . import normalize
            table = normalize.load_table()
        if table is not None:
            raw = [Fn(fd, d['crate']) for d in crates for fd in d['fns']]
            self.renamed = normalize.detect_renames(raw, table, self.profile)
            self.renamed.update(normalize.detect_adt_renames(crates, table))
            if self.renamed:
                crates = [json.loads(normalize.apply_renames(t, self.renamed)) for t in texts]
                for d in crates:
                    for fd in d['fns']:
                        normalize.fold_const_switches(fd)
            self.renamed_fields = normalize.rename_private_fields(crates, table)
            self.inlined = normalize.inline_new_helpers(crates, table)
            self.desugared = normalize.desugar_option_combinators(crates, table)
            self.desugared += normalize.desugar_bool_then_some(crates, table)
            for _round in range(3):     # (chains: res.map(..).map_err(..))
                more = normalize.desugar_result_combinators(crates, table)
                self.desugared += more
                if not more:
                    break
            self.inlined += [(c, [f]) for c, f in normalize.inline_local_closure_calls(crates, table)]
            for d in crates:
                for fd in d['fns']:
                    # (everywhere: `let t = a || b; if !t` in a function nothing was spliced into is the same shape)
                    normalize.thread_const_bool_gotos(fd)
                    if fd.get('inlined'):
                        normalize.thread_bool_returns(fd)
        for d in crates:
            crate = d['crate']
            self.crates.append(crate)
            for fd in d['fns']:
                fn = Fn(fd, crate)
                fn.prog = self
                self.fns[fn.key] = fn
                self.by_name[fn.name].append(fn)
                if fd.get('trait_item'):
                    self.trait_impls[fd['trait_item']].append(fn)
            for c in d['consts']:
                c['crate'] = crate
                self.consts[c['key']] = c
                self.consts_by_name[c['name']].append(c)
            for a in d['adts']:
                a['crate'] = crate
                self.adts[a['key']] = a
            for i in d['impls']:
                i['crate'] = crate
                self.impls.append(i)
        self._callees = {}
        self._closures_of = collections.defaultdict(list)
        for fn in self.fns.values():
            p = fn.d.get('parent_fn')
            if p:
                self._closures_of[p].append(fn)

    # ----------------------------------------------------------- lookup
    def fn(self, name):
        """Exact pretty name, or unique '::suffix' match.  Fails closed."""
        c = self.by_name.get(name)
        if c:
            if len(c) > 1:
                raise Unrecognised('function name %s is ambiguous (%d bodies)' % (name, len(c)))
            return c[0]
        m = [f for n, fs in self.by_name.items() if name_matches(n, name) for f in fs]
        if len(m) == 1:
            return m[0]
        if not m:
            raise Unrecognised('anchor function %s not found' % name)
        raise Unrecognised('anchor %s is ambiguous: %s' % (name, ', '.join(sorted(f.name for f in m))))

    def find_fns(self, pred=None, crate=None, prefix=None):
        out = []
        for f in self.fns.values():
            if crate and f.crate != crate:
                continue
            if prefix and not f.name.startswith(prefix):
                continue
            if pred and not pred(f):
                continue
            out.append(f)
        return sorted(out, key=lambda f: f.name)

    def const(self, name):
        c = self.consts_by_name.get(name)
        if not c:
            m = [x for n, xs in self.consts_by_name.items() if name_matches(n, name) for x in xs]
            if len(m) == 1:
                return m[0]
            if not m:
                raise Unrecognised('anchor constant %s not found' % name)
            raise Unrecognised('constant %s is ambiguous' % name)
        if len(c) > 1:
            raise Unrecognised('constant %s is ambiguous' % name)
        return c[0]

    def const_int(self, name):
        c = self.const(name)
        if 'int' in c:
            return int(c['int'])
        if 'bytes' in c:
            return int.from_bytes(bytes.fromhex(c['bytes']), 'little')
        raise Unrecognised('constant %s has no evaluated value' % name)

    def const_bytes(self, name):
        c = self.const(name)
        if 'bytes' in c:
            return bytes.fromhex(c['bytes'])
        if 'int' in c:
            v = int(c['int'])
            return v.to_bytes(max(1, (v.bit_length() + 7) // 8), 'little')
        raise Unrecognised('constant %s has no evaluated value' % name)

    def const_field(self, name, field):
        c = self.const(name)
        b = self.const_bytes(name)
        for f in c.get('fields', []):
            if f['n'] == field:
                return b[f['off']:f['off'] + f['size']]
        raise Unrecognised('constant %s has no field %s' % (name, field))

    def adt(self, name):
        m = [a for a in self.adts.values() if name_matches(a['name'], name)]
        if len(m) == 1:
            return m[0]
        if not m:
            raise Unrecognised('anchor type %s not found' % name)
        raise Unrecognised('type %s is ambiguous' % name)

    def impls_of(self, self_pred=None, trait_pred=None):
        out = []
        for i in self.impls:
            if self_pred and not self_pred(i['self']):
                continue
            if trait_pred and not trait_pred(i['trait']):
                continue
            out.append(i)
        return out

    # -------------------------------------------------------- call graph
    def callees(self, fn):
        """Set of callee identities reachable in one step: Fn objects for local bodies,
        strings (pretty names) for everything without MIR here."""
        if fn.key in self._callees:
            return self._callees[fn.key]
        out = set()
        live = fn.live_blocks()

        def add_key(key, pretty):
            if key in self.fns:
                out.add(self.fns[key])
                return
            # unresolved trait method of a trait defined in the workspace: every local impl may be the
            # target.  Unresolved std-trait methods on a type parameter (Default, Clone, ...) stay opaque
            # external callees: fanning them out to every impl in the workspace connects unrelated types.
            impls = self.trait_impls.get(key) if any(key.startswith(c + '::') for c in self.crates) else None
            if impls:
                for i in impls:
                    out.add(i)
                out.add(pretty)
                return
            out.add(pretty)

        def scan_operand(o):
            if o.get('k') == 'const' and o.get('fn'):
                add_key(o['fn'], o.get('fnp') or o['fn'])

        for bi in live:
            b = fn.blocks[bi]
            for st in b['st']:
                if st['k'] != 'assign':
                    continue
                rv = st['rv']
                if rv['k'] == 'agg' and rv['ak'] == 'closure':
                    add_key(rv['name'], rv['name'])
                for o in _rvalue_operands(rv):
                    scan_operand(o)
            t = b['term']
            if t['k'] == 'call':
                key = t.get('res') or t.get('callee')
                if key:
                    add_key(key, callee_name(t))
                    # a resolved call through a trait still may hit the syntactic callee's impls
                    if not t.get('res') and t.get('callee'):
                        add_key(t['callee'], t.get('calleep'))
                else:
                    out.add('<indirect call>')
                for a in t['args']:
                    scan_operand(a)
        self._callees[fn.key] = out
        return out

    def may_call_star(self, fn, stop=None):
        """Transitive callees: (set of Fn, set of external names, parent map for witness paths)."""
        seen = {fn}
        ext = {}
        parent = {fn: None}
        st = [fn]
        while st:
            f = st.pop()
            if stop and f is not fn and stop(f):
                continue
            for c in self.callees(f):
                if isinstance(c, Fn):
                    if c not in seen:
                        seen.add(c)
                        parent[c] = f
                        st.append(c)
                else:
                    ext.setdefault(c, f)
        return seen, ext, parent

    def call_chain(self, parent, f):
        out = []
        while f is not None:
            out.append(f.name)
            f = parent.get(f)
        return ' <- '.join(out)

    def callers_of(self, suffix, crate=None):
        """All call sites in the program whose callee matches suffix."""
        out = []
        for f in self.fns.values():
            if crate and f.crate != crate:
                continue
            for cs in f.calls(suffix):
                out.append(cs)
        return sorted(out, key=lambda c: (c.fn.name, c.bb))

    def closures_of(self, fn):
        return self._closures_of.get(fn.key, [])

    def family(self, fn):
        """fn plus the closures (transitively) defined inside it."""
        out = [fn]
        for c in self.closures_of(fn):
            if c is not fn:
                out.append(c)
        return out


def _rvalue_operands(rv):
    k = rv['k']
    if k in ('use', 'cast', 'repeat'):
        return [rv['o']]
    if k == 'binop':
        return [rv['a'], rv['b']]
    if k == 'unop':
        return [rv['a']]
    if k == 'agg':
        return rv['ops']
    return []
