"""Rule runner: contexts, records, floors, known findings, evidence, VIOLATION lines."""
import importlib
import json
import os
import sys
import time
import traceback

from . import extract
from .db import Program, Unrecognised, Fn, short

VERIF = extract.VERIF
OUT = os.path.join(VERIF, 'out')
EVIDENCE = os.path.join(VERIF, 'evidence')
KNOWN = os.path.join(VERIF, 'known_findings.txt')
TABLES = os.path.join(VERIF, 'tables')


def table(name):
    with open(os.path.join(TABLES, name + '.json')) as fh:
        return json.load(fh)


class Cx:
    """What a rule sees: the program database of one build profile, and a recorder."""

    def __init__(self, prog, profile, prop):
        self.prog = prog
        self.profile = profile
        self.prop = prop
        self.records = []
        self.rule = None
        self.sites = 0
        self.paths = 0

    # ---- recording
    def _rec(self, verdict, instance, fn=None, loc=None, detail='', kind=None):
        if isinstance(fn, Fn):
            if loc is None:
                loc = fn.loc()
            fn = fn.name
        r = {'rule': self.rule, 'instance': str(instance), 'function': fn or '', 'loc': loc or '',
             'verdict': verdict, 'detail': detail, 'profile': self.profile}
        if kind:
            r['kind'] = kind
        self.records.append(r)
        return verdict == 'pass'

    def ok(self, instance, fn=None, loc=None, detail=''):
        return self._rec('pass', instance, fn, loc, detail)

    def fail(self, instance, fn=None, loc=None, detail='', kind='violated'):
        return self._rec('fail', instance, fn, loc, detail, kind)

    def check(self, cond, instance, fn=None, loc=None, detail='', fail_detail=None):
        if cond:
            return self.ok(instance, fn, loc, detail)
        return self.fail(instance, fn, loc, fail_detail or detail)

    def unrecognised(self, instance, fn=None, loc=None, detail=''):
        return self._rec('fail', instance, fn, loc, detail, 'unrecognised')

    def require(self, cond, what):
        """Fail closed when a structural expectation of the rule itself is not met."""
        if not cond:
            raise Unrecognised(what)

    def count_sites(self, n=1):
        self.sites += n

    def count_paths(self, n=1):
        self.paths += n


def load_known():
    known = {}
    fixed = []
    if os.path.exists(KNOWN):
        for line in open(KNOWN):
            line = line.strip()
            if line.startswith('known:'):
                parts = line[len('known:'):].split()
                prop = key = None
                rest = []
                for p in parts:
                    if p.startswith('property=') and prop is None:
                        prop = p[len('property='):]
                    elif p.startswith('key=') and key is None:
                        key = p[len('key='):]
                    else:
                        rest.append(p)
                if prop and key:
                    known[(prop, key)] = ' '.join(rest)
            elif line.startswith('fixed:'):
                fixed.append(line)
    return known, fixed


def record_key(r):
    # never a line number: rule | function | instance
    return '%s|%s|%s' % (r['rule'], r['function'].replace(' ', ''), r['instance'].replace(' ', '_'))


def run_rules(mod, prog, profile, only_rule=None):
    cx = Cx(prog, profile, mod.PROPERTY)
    for rid, func in mod.RULES:
        if only_rule and rid != only_rule:
            continue
        cx.rule = rid
        before = len(cx.records)
        try:
            func(cx)
        except Unrecognised as e:
            cx.unrecognised('anchor', detail='rule cannot be evaluated on this tree: %s' % e)
        except Exception as e:  # fail closed, but say it is the machinery
            tb = traceback.format_exc().strip().splitlines()
            cx.unrecognised('engine', detail='rule raised %s: %s [%s]' % (type(e).__name__, e, tb[-3].strip() if len(tb) >= 3 else ''))
        got = len([r for r in cx.records[before:] if r.get('kind') != 'unrecognised'])
        floor = getattr(mod, 'FLOORS', {}).get(rid, 1)
        if got < floor:
            cx.fail('floor', detail='rule matched %d instance(s), fewer than the %d confirmed by hand on the reference tree: '
                    'a rule that matches nothing never passes' % (got, floor), kind='unrecognised')
    return cx


def load_rules(prop):
    sys.path.insert(0, VERIF)
    return importlib.import_module('rules.' + prop.lower())


def get_program(repo, profile, use_cache=True):
    d, th, info = extract.extract(repo, profile, use_cache=use_cache)
    return Program(d), th, info


def run_property(prop, tier='quick', repo='/repo', quiet=False, write_evidence=True, only_rule=None,
                 only_instance=None, profiles=None):
    t0 = time.time()
    seed = int(os.environ.get('VERIF_SEED', '0') or 0)
    mod = load_rules(prop)
    if profiles is None:
        profiles = ['dev', 'nodebug']   # release-only code (cfg(not(debug_assertions))) is part of the tree: both tiers read both builds
    all_records = []
    infos = []
    th = None
    sites = paths = 0
    for profile in profiles:
        try:
            prog, th, info = get_program(repo, profile)
        except extract.ExtractError as e:
            print('check %s: cannot analyse %s: %s' % (prop, repo, e))
            print('no verdict: the tree does not build or the facts are stale')
            return 2, []
        info = dict(info)
        # what the normalisation against the reference function table did on this tree (identity on the reference tree)
        info['normalisation'] = {'renamed_back': dict(prog.renamed), 'fields_renamed_back': [list(x) for x in prog.renamed_fields], 'helpers_inlined': [{'helper': h, 'into': c} for h, c in prog.inlined],
                                 'combinators_rewritten': [{'combinator': k, 'in': c} for k, c in getattr(prog, 'desugared', [])]}
        infos.append(info)
        cx = run_rules(mod, prog, profile, only_rule)
        all_records.extend(cx.records)
        sites += cx.sites
        paths += cx.paths
    extra = {}
    if tier == 'thorough' and not only_rule and repo == '/repo':
        from . import controls
        code, extra = controls.run_controls(prop, repo)
        if code == 2:
            print('check %s: machinery fault, no verdict: %s' % (prop, extra.get('error')))
            return 2, []
        from . import witness
        wcode, winfo = witness.run(prop, repo)
        if wcode == 2:
            print('check %s: machinery fault, no verdict: %s' % (prop, winfo.get('error')))
            return 2, []
        all_records.extend(winfo.pop('records', []))
        extra.update(winfo)
        if hasattr(mod, 'thorough'):
            code, more = mod.thorough(repo)
            if code == 2:
                print('check %s: machinery fault, no verdict: %s' % (prop, more.get('error')))
                return 2, []
            all_records.extend(more.pop('records', []))
            extra.update(more)
    known, fixed = load_known()
    fails = [r for r in all_records if r['verdict'] == 'fail']
    if only_instance:
        fails = [r for r in fails if record_key(r) == only_instance]
    viol = []
    os.makedirs(OUT, exist_ok=True)
    seen_keys = set()
    nknown = 0
    for r in fails:
        key = record_key(r)
        if (prop, key) in known:
            if key not in seen_keys:
                print('KNOWN-FINDING: property=%s %s %s' % (prop, key, known[(prop, key)]))
                nknown += 1
            seen_keys.add(key)
            continue
        if key in seen_keys:
            continue
        seen_keys.add(key)
        viol.append(r)
    if not quiet:
        npass = len([r for r in all_records if r['verdict'] == 'pass'])
        print('check %s [%s] tree=%s profiles=%s: %d rule instances evaluated, %d hold, %d fail%s' % (
            prop, tier, (th or '')[:12], ','.join(profiles), len(all_records), npass, len(fails),
            (' (%d known)' % nknown) if nknown else ''))
        by_rule = {}
        for r in all_records:
            by_rule.setdefault(r['rule'], [0, 0])
            by_rule[r['rule']][0 if r['verdict'] == 'pass' else 1] += 1
        for rid in sorted(by_rule, key=_rule_sort):
            print('  %-7s %3d hold %3d fail  %s' % (rid, by_rule[rid][0], by_rule[rid][1], _rule_doc(mod, rid)))
    for i, r in enumerate(viol):
        path = os.path.join(OUT, '%s-%s-%d.json' % (prop, r['rule'].replace('.', '_'), i))
        rec = dict(r)
        rec['property'] = prop
        rec['key'] = record_key(r)
        rec['tree_hash'] = th
        with open(path, 'w') as fh:
            json.dump(rec, fh, indent=1)
        print('%s: rule %s [%s] instance "%s" in %s (%s profile): %s' % (
            r['loc'] or '?', r['rule'], r.get('kind', 'violated'), r['instance'], r['function'] or '-', r['profile'], r['detail']))
        print('VIOLATION property=%s replay=%s' % (prop, path))
    if write_evidence:
        write_ev(prop, tier, seed, mod, all_records, infos, th, time.time() - t0, len(viol), sites, paths, extra, profiles)
    return (1 if viol else 0), viol


def _rule_sort(rid):
    try:
        a, b = rid[1:].split('.')
        return (int(a), int(b))
    except Exception:
        return (999, 0)


def _rule_doc(mod, rid):
    for r, f in mod.RULES:
        if r == rid:
            return (f.__doc__ or '').strip().splitlines()[0] if f.__doc__ else ''
    return ''


def write_ev(prop, tier, seed, mod, records, infos, th, wall, nviol, sites, paths, extra, profiles):
    os.makedirs(EVIDENCE, exist_ok=True)
    evaluated = [r for r in records if r.get('kind') != 'unrecognised']
    distinct = {(r['rule'], r['function'], r['instance']) for r in evaluated if r['function'] or r['loc']}
    fnset = {r['function'] for r in records if r['function']}
    samples = []
    seen_rules = set()
    for r in records:
        if r['rule'] in seen_rules and len(samples) >= 6:
            continue
        if len(samples) >= 40:
            break
        seen_rules.add(r['rule'])
        samples.append({'rule': r['rule'], 'instance': r['instance'], 'function': r['function'], 'at': r['loc'],
                        'verdict': r['verdict'], 'shown': r['detail'][:300], 'profile': r['profile']})
    rules_doc = {rid: ((f.__doc__ or '').strip()) for rid, f in mod.RULES}
    cov = {
        'explanation': mod.EXPLANATION.strip(),
        'evaluations': len(records),
        'distinct_nontrivial': len(distinct),
        'rule': 'one evaluation = one instance of a static rule (a call site, guard, path obligation, constant or '
                'signature) found in the MIR / item facts of the current tree; an instance is non-trivial when it is '
                'anchored on a concrete function or source site of /repo, distinct by (rule, function, instance)',
        'samples': samples,
        'rules': rules_doc,
        'functions_analysed': len(fnset),
        'functions_in_program': sum(i.get('functions', 0) for i in infos[:1]),
        'call_sites_examined': sites,
        'paths_examined': paths,
        'profiles': profiles,
        'tree_hash': th,
        'extraction': infos,
        'exhaustive': False,
    }
    cov.update(extra or {})
    ev = {
        'property_id': prop,
        'tier': tier,
        'seed': seed,
        'level': 'other',
        'coverage': cov,
        'assumptions': list(getattr(mod, 'ASSUMPTIONS', [])) + [
            "rustc's MIR construction and callee resolution on the installed nightly; the woodfacts serialisation; the Python rule engine",
            'library targets of the five workspace members only (tests, examples, 32-bit targets are not analysed)',
        ],
        'wall_s': round(wall, 3),
        'violations': nviol,
    }
    with open(os.path.join(EVIDENCE, prop + '.json'), 'w') as fh:
        json.dump(ev, fh, indent=1)
