"""E1 front end: run the woodfacts driver over a source tree and cache the facts.

Facts are keyed by a SHA-256 over every source file of the tree (outside
target/ and .git/), so that any edit of /repo yields a fresh extraction and
twenty checks on one tree pay for a single one.  The cargo target directory is
persistent (dependencies are compiled once) but the workspace members'
fingerprints are removed before each extraction and every fact file must carry
the nonce of this run: a warm cargo cache can never satisfy a check.
"""
import fcntl
import glob
import hashlib
import json
import os
import shutil
import subprocess
import sys
import time
import uuid

VERIF = os.path.dirname(os.path.dirname(os.path.dirname(os.path.abspath(__file__))))
CACHE = os.path.join(VERIF, '.cache')
DRIVER = os.path.join(VERIF, 'engine', 'driver', 'target', 'release', 'woodfacts')
MEMBERS = ['hcobs', 'owning_iovec', 'rough_tlv', 'sliding_deque', 'vouched_time']

PROFILES = {
    'dev': '-Zmir-opt-level=0 -Awarnings',
    'nodebug': '-Zmir-opt-level=0 -Awarnings -C debug-assertions=off',
}


class ExtractError(Exception):
    pass


def tree_hash(repo):
    h = hashlib.sha256()
    files = []
    for root, dirs, fs in os.walk(repo):
        dirs[:] = sorted(d for d in dirs if d not in ('target', '.git'))
        for f in sorted(fs):
            files.append(os.path.join(root, f))
    for p in sorted(files):
        rel = os.path.relpath(p, repo)
        h.update(rel.encode())
        h.update(b'\0')
        try:
            with open(p, 'rb') as fh:
                h.update(hashlib.sha256(fh.read()).digest())
        except OSError:
            h.update(b'?')
    return h.hexdigest()


def sysroot():
    return subprocess.check_output(['rustc', '+nightly', '--print', 'sysroot'], text=True).strip()


def ensure_driver():
    if not os.path.exists(DRIVER):
        env = dict(os.environ, CARGO_NET_OFFLINE='true')
        r = subprocess.run(['cargo', '+nightly', 'build', '--release', '--offline'],
                           cwd=os.path.join(VERIF, 'engine', 'driver'), env=env,
                           capture_output=True, text=True)
        if r.returncode != 0 or not os.path.exists(DRIVER):
            raise ExtractError('cannot build the woodfacts driver:\n' + r.stderr[-4000:])
    return DRIVER


def extract(repo, profile='dev', target_dir=None, use_cache=True, log=None):
    """Return (facts_dir, tree_hash, info).  Raises ExtractError if the tree does not build."""
    repo = os.path.abspath(repo)
    th = tree_hash(repo)
    is_main = (repo == '/repo')
    with open(os.path.join(VERIF, 'engine', 'driver', 'src', 'main.rs'), 'rb') as fh:
        drv = hashlib.sha256(fh.read()).hexdigest()
    tag = hashlib.sha256((th + drv).encode()).hexdigest()[:24]
    outdir = os.path.join(CACHE, 'facts', tag, profile)
    os.makedirs(os.path.join(CACHE, 'facts'), exist_ok=True)
    lock = open(os.path.join(CACHE, 'extract.lock' if is_main else 'extract-scratch.lock'), 'w')
    fcntl.flock(lock, fcntl.LOCK_EX)
    try:
        ok = os.path.join(outdir, 'OK')
        if use_cache and os.path.exists(ok):
            info = json.load(open(ok))
            info['cached'] = True
            try:
                os.utime(os.path.dirname(outdir))
            except OSError:
                pass
            return outdir, th, info
        driver = ensure_driver()
        if os.path.isdir(outdir):
            shutil.rmtree(outdir)
        os.makedirs(outdir)
        if target_dir is None:
            # one target directory per lock: /repo itself, and scratch copies (seeded changes, controls)
            target_dir = os.path.join(CACHE, ('target-' if is_main else 'target-scratch-') + profile)
        os.makedirs(target_dir, exist_ok=True)
        # never trust a warm cache for the members themselves
        for m in MEMBERS:
            for fp in glob.glob(os.path.join(target_dir, 'debug', '.fingerprint', m.replace('_', '?') + '-*')):
                shutil.rmtree(fp, ignore_errors=True)
        nonce = uuid.uuid4().hex
        env = dict(os.environ)
        env.update({
            'CARGO_NET_OFFLINE': 'true',
            'LD_LIBRARY_PATH': sysroot() + '/lib' + (':' + env['LD_LIBRARY_PATH'] if env.get('LD_LIBRARY_PATH') else ''),
            'RUSTFLAGS': PROFILES[profile],
            'RUSTC_WORKSPACE_WRAPPER': driver,
            'CARGO_TARGET_DIR': target_dir,
            'WOODFACTS_OUT': outdir,
            'WOODFACTS_NONCE': nonce,
        })
        env.pop('RUSTC_WRAPPER', None)
        t0 = time.time()
        r = subprocess.run(['cargo', '+nightly', 'check', '--offline', '--workspace', '--lib',
                            '--manifest-path', os.path.join(repo, 'Cargo.toml')],
                           env=env, capture_output=True, text=True)
        wall = time.time() - t0
        if r.returncode != 0:
            shutil.rmtree(outdir, ignore_errors=True)
            raise ExtractError('the tree does not build (cargo check failed):\n' + r.stderr[-6000:])
        nfn = 0
        for m in MEMBERS:
            p = os.path.join(outdir, m + '.json')
            if not os.path.exists(p):
                shutil.rmtree(outdir, ignore_errors=True)
                raise ExtractError('stale build: no fact file for crate %s (driver was skipped)' % m)
            with open(p) as fh:
                d = json.load(fh)
            if d.get('nonce') != nonce:
                shutil.rmtree(outdir, ignore_errors=True)
                raise ExtractError('stale facts for crate %s (nonce mismatch)' % m)
            nfn += len(d['fns'])
        info = {'tree_hash': th, 'profile': profile, 'functions': nfn, 'extract_wall_s': round(wall, 2),
                'nonce': nonce, 'cached': False}
        with open(ok, 'w') as fh:
            json.dump(info, fh)
        # keep the cache small: drop fact sets other than the 6 most recent
        # (never one younger than 20 minutes: a concurrent check of another tree may be about to read it)
        sets = sorted(glob.glob(os.path.join(CACHE, 'facts', '*')), key=os.path.getmtime)
        for old in sets[:-6]:
            if os.path.basename(old) != tag and time.time() - os.path.getmtime(old) > 1200:
                shutil.rmtree(old, ignore_errors=True)
        return outdir, th, info
    finally:
        fcntl.flock(lock, fcntl.LOCK_UN)
        lock.close()


if __name__ == '__main__':
    repo = sys.argv[1] if len(sys.argv) > 1 else '/repo'
    prof = sys.argv[2] if len(sys.argv) > 2 else 'dev'
    try:
        d, th, info = extract(repo, prof)
    except ExtractError as e:
        print('EXTRACT ERROR:', e)
        sys.exit(2)
    print(d, info)
