"""Inventory of unsafe operations per function, computed from MIR facts (resolved program, not text):
calls to unsafe fns (macro-expanded ones such as format_args! plumbing excluded), dereferences of raw
pointers, reads of union fields, plus `unsafe impl`s from the item facts."""
from .db import callee_name


def _places(fn):
    for bi in fn.live_blocks():
        b = fn.blocks[bi]
        for st in b['st']:
            if st['k'] != 'assign':
                continue
            yield st['pl']
            rv = st['rv']
            if 'pl' in rv:
                yield rv['pl']
            for o in [rv.get('o'), rv.get('a'), rv.get('b')] + rv.get('ops', []):
                if o and o.get('k') in ('copy', 'move'):
                    yield o['pl']
        t = b['term']
        if t['k'] == 'call':
            yield t['dest']
            for a in t['args']:
                if a.get('k') in ('copy', 'move'):
                    yield a['pl']
        elif t['k'] == 'drop':
            yield t['pl']
        elif t['k'] == 'switch' and t['d'].get('k') in ('copy', 'move'):
            yield t['d']['pl']


def ops_of(fn):
    ops = set()
    for cs in fn.calls():
        if cs.t.get('unsafe') and not cs.t.get('exp'):
            ops.add('call:' + callee_name(cs.t))
    for pl in _places(fn):
        for x in pl['p']:
            if x['k'] == 'deref' and x.get('raw'):
                ops.add('deref-raw:' + x.get('of', '?'))
            if x['k'] == 'field' and x.get('union'):
                ops.add('union-field:' + x.get('adt', '?').rsplit('::', 1)[-1] + '.' + str(x.get('n')))
    for pos, st in fn.statements():
        if st['k'] == 'assign' and st['rv']['k'] == 'cast' and st['rv']['ck'] == 'Transmute':
            src = st.get('line')
            ops.add('transmute:' + st['rv']['ty'])
    return ops


def inventory(prog, crates):
    inv = {}
    for f in prog.fns.values():
        if f.crate not in crates:
            continue
        o = ops_of(f)
        if o:
            inv[f.name] = sorted(o)
    impls = sorted('%s for %s' % (i['trait'], i['self']) for i in prog.impls if i['crate'] in crates and i.get('unsafe') and not i.get('derived'))
    return inv, impls
