"""Path-sensitive abstract interpretation of loop-free MIR bodies over linear forms.

Integer locals are tracked as linear forms over named atoms (parameters, results of
unknown calls, non-linear subterms) in the ideal integers.  Each atom has an interval;
pairs of atoms may carry an interval for their difference.  Every arithmetic operation
is checked for exactness against its machine type under the constraints accumulated on
the path (guards are comparisons of tracked forms).  No solver: everything is interval
arithmetic on at most two symbolic inputs.
"""
import re

from .db import Unrecognised, callee_name, short

INT_RANGES = {
    'u8': (0, 2**8 - 1), 'u16': (0, 2**16 - 1), 'u32': (0, 2**32 - 1), 'u64': (0, 2**64 - 1), 'u128': (0, 2**128 - 1),
    'usize': (0, 2**64 - 1),
    'i8': (-2**7, 2**7 - 1), 'i16': (-2**15, 2**15 - 1), 'i32': (-2**31, 2**31 - 1), 'i64': (-2**63, 2**63 - 1),
    'i128': (-2**127, 2**127 - 1), 'isize': (-2**63, 2**63 - 1), 'bool': (0, 1),
}


def int_range(ty):
    return INT_RANGES.get(ty)


class Lin:
    __slots__ = ('c', 'k')

    def __init__(self, coeffs=None, const=0):
        self.c = {a: v for a, v in (coeffs or {}).items() if v != 0}
        self.k = const

    def __add__(self, o):
        c = dict(self.c)
        for a, v in o.c.items():
            c[a] = c.get(a, 0) + v
        return Lin(c, self.k + o.k)

    def __neg__(self):
        return Lin({a: -v for a, v in self.c.items()}, -self.k)

    def __sub__(self, o):
        return self + (-o)

    def scale(self, n):
        return Lin({a: v * n for a, v in self.c.items()}, self.k * n)

    def is_const(self):
        return not self.c

    def __repr__(self):
        parts = ['%s%s' % ('' if v == 1 else ('-' if v == -1 else '%d*' % v), a) for a, v in sorted(self.c.items())]
        if self.k or not parts:
            parts.append(str(self.k))
        return ' + '.join(parts)


class Infeasible(Exception):
    pass


class State:
    def __init__(self):
        self.iv = {}      # atom -> [lo, hi]
        self.diff = {}    # (a, b) -> [lo, hi] for a - b
        self.env = {}     # place key -> value
        self.notes = []   # obligations: dicts
        self.ignored = []  # guards that could not be turned into constraints
        self.fresh = 0
        self.guards = []   # (op, linA, linB) assumed on the path
        self.called = []   # (callee, truth) boolean call results assumed
        self.discr = []    # (value, frozenset(variants)) discriminant edges taken
        self.version = {}  # local -> number of stores into it on this path
        self.propagate = True  # let a difference constraint tighten the intervals of its two atoms
        self.memo = {}     # (pure getter, place key, version) -> its value

    def copy(self):
        s = State()
        s.iv = {k: list(v) for k, v in self.iv.items()}
        s.diff = {k: list(v) for k, v in self.diff.items()}
        s.env = dict(self.env)
        s.notes = self.notes  # shared on purpose: obligations are global
        s.ignored = list(self.ignored)
        s.fresh = self.fresh
        s.guards = list(self.guards)
        s.called = list(self.called)
        s.discr = list(self.discr)
        s.version = dict(self.version)
        s.propagate = self.propagate
        s.memo = dict(self.memo)
        return s

    def atom(self, name, lo, hi):
        if name not in self.iv:
            self.iv[name] = [lo, hi]
        return Lin({name: 1})

    def fresh_atom(self, hint, lo, hi):
        self.fresh += 1
        name = '%s#%d' % (hint, self.fresh)
        self.iv[name] = [lo, hi]
        return Lin({name: 1})

    def interval(self, lin):
        lo = hi = lin.k
        for a, v in lin.c.items():
            alo, ahi = self.iv[a]
            if v > 0:
                lo += v * alo
                hi += v * ahi
            else:
                lo += v * ahi
                hi += v * alo
        # refine with a difference constraint when the form is k*(a-b)+c
        if len(lin.c) == 2:
            (a, va), (b, vb) = sorted(lin.c.items())
            if va == -vb:
                for (x, y), sign in (((a, b), 1), ((b, a), -1)):
                    if (x, y) in self.diff:
                        dlo, dhi = self.diff[(x, y)]
                        k = va * sign if (x, y) == (a, b) else vb * 1
                        # form = k*(x-y)+c with k the coefficient of x
                        k = lin.c[x]
                        c1, c2 = k * dlo + lin.k, k * dhi + lin.k
                        lo = max(lo, min(c1, c2))
                        hi = min(hi, max(c1, c2))
        return lo, hi

    def constrain(self, lin, op):
        """assume  lin <op> 0  with op in Le, Lt, Ge, Gt, Eq, Ne.  Returns False if not representable."""
        if op == 'Lt':
            return self.constrain(lin + Lin(const=1), 'Le')
        if op == 'Gt':
            return self.constrain(lin - Lin(const=1), 'Ge')
        if op == 'Eq':
            return self.constrain(lin, 'Le') and self.constrain(lin, 'Ge')
        if op == 'Ne':
            lo, hi = self.interval(lin)
            if lo == hi == 0:
                raise Infeasible()
            if len(lin.c) == 1:
                # v*a + k != 0: shave the excluded point off an end of a's interval
                (a, v), = lin.c.items()
                if (-lin.k) % v == 0:
                    x = (-lin.k) // v
                    alo, ahi = self.iv[a]
                    if x == alo:
                        self.iv[a] = [alo + 1, ahi]
                    elif x == ahi:
                        self.iv[a] = [alo, ahi - 1]
                    if self.iv[a][0] > self.iv[a][1]:
                        raise Infeasible()
            return True  # otherwise not representable; sound to drop for exactness proofs
        if lin.is_const():
            if (op == 'Le' and lin.k > 0) or (op == 'Ge' and lin.k < 0):
                raise Infeasible()
            return True
        if len(lin.c) == 1:
            (a, v), = lin.c.items()
            # v*a + k <= 0  /  >= 0
            lo, hi = self.iv[a]
            if (op == 'Le') == (v > 0):
                # a <= floor(-k / v) (v>0, Le)   or   v<0, Ge: a <= floor(k / -v)... handle generally
                bound = _floor_div(-lin.k, v) if v > 0 else _floor_div(lin.k, -v)
                hi = min(hi, bound)
            else:
                bound = _ceil_div(-lin.k, v) if v > 0 else _ceil_div(lin.k, -v)
                lo = max(lo, bound)
            if lo > hi:
                raise Infeasible()
            self.iv[a] = [lo, hi]
            return True
        if len(lin.c) == 2:
            (a, va), (b, vb) = sorted(lin.c.items())
            if va == -vb:
                # va*(a-b) + k <= / >= 0
                key = (a, b)
                lo, hi = self.diff.get(key, [None, None])
                v = va
                if (op == 'Le') == (v > 0):
                    bound = _floor_div(-lin.k, v) if v > 0 else _floor_div(lin.k, -v)
                    hi = bound if hi is None else min(hi, bound)
                else:
                    bound = _ceil_div(-lin.k, v) if v > 0 else _ceil_div(lin.k, -v)
                    lo = bound if lo is None else max(lo, bound)
                ilo, ihi = self._indep_diff(a, b)
                lo = ilo if lo is None else max(lo, ilo)
                hi = ihi if hi is None else min(hi, ihi)
                if lo > hi:
                    raise Infeasible()
                self.diff[key] = [lo, hi]
                # a - b in [lo, hi] also bounds each atom through the other's interval
                if not self.propagate:
                    return True
                (alo, ahi), (blo, bhi) = self.iv[a], self.iv[b]
                na = [max(alo, blo + lo), min(ahi, bhi + hi)]
                nb = [max(blo, alo - hi), min(bhi, ahi - lo)]
                if na[0] > na[1] or nb[0] > nb[1]:
                    raise Infeasible()
                self.iv[a], self.iv[b] = na, nb
                return True
        return False

    def _indep_diff(self, a, b):
        return self.iv[a][0] - self.iv[b][1], self.iv[a][1] - self.iv[b][0]

    def diff_interval(self, a, b):
        lo, hi = self._indep_diff(a, b)
        if (a, b) in self.diff:
            lo = max(lo, self.diff[(a, b)][0])
            hi = min(hi, self.diff[(a, b)][1])
        if (b, a) in self.diff:
            lo = max(lo, -self.diff[(b, a)][1])
            hi = min(hi, -self.diff[(b, a)][0])
        return lo, hi


def _floor_div(a, b):
    return a // b


def _ceil_div(a, b):
    return -((-a) // b)


CMP = {'Lt', 'Le', 'Gt', 'Ge', 'Eq', 'Ne'}
NEG = {'Lt': 'Ge', 'Ge': 'Lt', 'Gt': 'Le', 'Le': 'Gt', 'Eq': 'Ne', 'Ne': 'Eq'}


class PathEval:
    """Enumerate the paths of a loop-free function; `on_return(path, state)` is called per complete path."""

    def __init__(self, fn, param_atoms, max_paths=4096, prog=None, atom_ranges=None, propagate=True):
        self.propagate = propagate
        self.prog = prog
        self.atom_ranges = atom_ranges or {}
        self.fn = fn
        if not fn.is_acyclic():
            raise Unrecognised('%s is not loop-free: the path evaluator does not apply' % fn.name)
        self.param_atoms = dict(param_atoms)  # local index -> atom name
        self.max_paths = max_paths
        self.paths = 0
        self.obligations = []   # {'kind','pos','detail','ok'}
        self.results = []
        # locals that are mutably borrowed somewhere: their fields may change behind the evaluator's back
        self.borrowed = set()
        for b in range(fn.n):
            for s_ in fn.blocks[b]['st']:
                if s_['k'] == 'assign' and s_['rv']['k'] in ('ref', 'rawptr') and s_['rv'].get('mut'):
                    self.borrowed.add(s_['rv']['pl']['l'])

    # ---- values
    def key(self, pl):
        return (pl['l'],) + tuple(str(x.get('i', x['k'])) if x['k'] == 'field' else x['k'] for x in pl['p'] if x['k'] != 'deref')

    def read(self, st, o):
        if o['k'] == 'const':
            ty = o.get('ty', '')
            if o.get('int') is not None and (int_range(ty) or ty == 'bool'):
                return Lin(const=int(o['int']))
            rng = _promoted_range(o)
            if rng is not None:
                return rng
            return ('const', o)
        if o['k'] in ('copy', 'move'):
            k = self.key(o['pl'])
            if k in st.env:
                return st.env[k]
            l = o['pl']['l']
            if not o['pl']['p'] and l not in self.param_atoms and 1 <= l <= self.fn.argc and int_range(self.fn.locals[l]):
                self.param_atoms[l] = 'arg%d' % l
            if not o['pl']['p'] and l in self.param_atoms:
                ty = self.fn.locals[l]
                lo, hi = self.atom_ranges.get(self.param_atoms[l]) or int_range(ty)
                return st.atom(self.param_atoms[l], lo, hi)
            # projection of a structured value
            base = st.env.get((l,))
            if isinstance(base, tuple) and base[0] == 'agg' and len(o['pl']['p']) == 1 and o['pl']['p'][0]['k'] == 'field':
                i = o['pl']['p'][0]['i']
                if i < len(base[2]):
                    return base[2][i]
            if isinstance(base, tuple) and base[0] == 'tryint' and [x['k'] for x in o['pl']['p']] == ['downcast', 'field'] \
                    and o['pl']['p'][1]['i'] == 0 and int_range(o['pl']['p'][1].get('ty') or '') == base[2]:
                # the payload of Ok(_) of an integer try_from is the value itself
                return base[1]
            ty = self.fn.locals[l] if not o['pl']['p'] else (o['pl']['p'][-1].get('ty') or _place_ty(self.fn, o['pl']))
            r = int_range(ty)
            if r:
                v = st.fresh_atom('_%d' % l, r[0], r[1])
                st.env[k] = v
                return v
            return ('opaque', k)
        return ('opaque', None)

    def oblige(self, st, kind, pos, lin, ty, what):
        r = int_range(ty)
        if r is None:
            return
        lo, hi = st.interval(lin)
        ok = r[0] <= lo and hi <= r[1]
        self.obligations.append({'kind': kind, 'pos': pos, 'ok': ok, 'ty': ty,
                                 'detail': '%s: exact value %s ranges over [%d, %d], %s holds [%d, %d]' % (what, lin, lo, hi, ty, r[0], r[1])})

    def assign(self, st, pos, pl, rv):
        fn = self.fn
        k = self.key(pl)
        kind = rv['k']
        dty = fn.locals[pl['l']] if not pl['p'] else ''
        val = ('opaque', k)
        st.version[pl['l']] = st.version.get(pl['l'], 0) + 1
        if kind == 'use':
            val = self.read(st, rv['o'])
        elif kind == 'cast':
            v = self.read(st, rv['o'])
            if isinstance(v, Lin) and rv['ck'] == 'IntToInt':
                self.oblige(st, 'cast', pos, v, rv['ty'], '`as %s` cast' % rv['ty'])
                val = v
        elif kind == 'unop' and rv['op'] == 'Neg':
            v = self.read(st, rv['a'])
            if isinstance(v, Lin):
                val = -v
                self.oblige(st, 'neg', pos, val, dty, 'negation')
        elif kind == 'unop' and rv['op'] == 'Not':
            v = self.read(st, rv['a'])
            if isinstance(v, tuple) and v[0] in ('cmp', 'and', 'or', 'not'):
                val = ('not', v)
        elif kind == 'binop':
            a, b = self.read(st, rv['a']), self.read(st, rv['b'])
            op = rv['op']
            checked = op.endswith('WithOverflow')
            base = op[:-len('WithOverflow')] if checked else op
            if base in CMP and isinstance(a, Lin) and isinstance(b, Lin):
                val = ('cmp', base, a, b)
            elif base in ('BitOr', 'BitAnd') and isinstance(a, tuple) and isinstance(b, tuple):
                val = ('or' if base == 'BitOr' else 'and', a, b)
            elif base in ('Add', 'Sub') and isinstance(a, Lin) and isinstance(b, Lin):
                res = a + b if base == 'Add' else a - b
                ty = dty
                if checked:
                    m = re.match(r'\((\w+), bool\)', dty)
                    ty = m.group(1) if m else ''
                    self.oblige(st, 'checked-' + base.lower(), pos, res, ty, 'overflow-checked %s (panics when it does not fit)' % base.lower())
                    st.env[k + ('0',)] = res
                    st.env[k + ('1',)] = Lin(const=0)
                    st.env[k] = ('agg', 'tuple', [res, Lin(const=0)])
                    return
                self.oblige(st, base.lower(), pos, res, ty, base.lower())
                val = res
            elif base == 'Mul' and isinstance(a, Lin) and isinstance(b, Lin) and (a.is_const() or b.is_const()):
                res = b.scale(a.k) if a.is_const() else a.scale(b.k)
                ty = dty
                if checked:
                    m = re.match(r'\((\w+), bool\)', dty)
                    ty = m.group(1) if m else ''
                    self.oblige(st, 'checked-mul', pos, res, ty, 'overflow-checked mul')
                    st.env[k + ('0',)] = res
                    st.env[k + ('1',)] = Lin(const=0)
                    st.env[k] = ('agg', 'tuple', [res, Lin(const=0)])
                    return
                self.oblige(st, 'mul', pos, res, ty, 'mul')
                val = res
            elif base == 'Shl' and isinstance(a, Lin) and isinstance(b, Lin) and b.is_const() and 0 <= b.k < 128:
                res = a.scale(2 ** b.k)
                self.oblige(st, 'shl', pos, res, dty, 'left shift by %d (silently drops the high bits when it does not fit)' % b.k)
                val = res
            elif base in ('Div', 'Rem') and isinstance(a, Lin) and isinstance(b, Lin) and b.is_const() and b.k > 0:
                lo, hi = st.interval(a)
                if lo >= 0:
                    if base == 'Div':
                        val = st.fresh_atom('div', lo // b.k, hi // b.k)
                    else:
                        val = st.fresh_atom('rem', 0, min(hi, b.k - 1))
            elif isinstance(a, Lin) and isinstance(b, Lin):
                r = int_range(dty)
                if r:
                    val = st.fresh_atom(base.lower(), r[0], r[1])
        elif kind == 'agg':
            val = ('agg', rv.get('variant') or rv.get('ak'), [self.read(st, o) for o in rv['ops']], rv.get('name'))
        elif kind in ('ref',):
            kk = self.key(rv['pl'])
            val = st.env.get(kk, ('ref', kk))
            pj = rv['pl']['p']
            if kk not in st.env and len(pj) == 1 and pj[0]['k'] == 'deref' and (rv['pl']['l'],) in st.env:
                # &*r: references evaluate to what they point to
                val = st.env[(rv['pl']['l'],)]
        elif kind == 'discr':
            base = st.env.get(self.key(rv['pl']))
            val = ('discr', base)
        if val == ('opaque', k):
            r = int_range(dty)
            if r:
                val = st.fresh_atom('_%d' % pl['l'], r[0], r[1])
        st.env[k] = val

    def call(self, st, pos, t):
        fn = self.fn
        name = callee_name(t)
        args = [self.read(st, a) for a in t['args']]
        if getattr(self, 'on_call', None):
            self.on_call(st, pos, t, args)
        k = self.key(t['dest'])
        dty = fn.locals[t['dest']['l']] if not t['dest']['p'] else ''
        last = name.rsplit('::', 1)[-1]
        val = None
        if all(isinstance(a, Lin) for a in args) and len(args) == 2 and last in ('wrapping_sub', 'wrapping_add'):
            res = args[0] - args[1] if last == 'wrapping_sub' else args[0] + args[1]
            self.oblige(st, 'wrapping', pos, res, dty, '%s (wraps silently when it does not fit)' % last)
            val = res
        elif all(isinstance(a, Lin) for a in args) and len(args) == 2 and last in ('saturating_sub', 'saturating_add'):
            res = args[0] - args[1] if last == 'saturating_sub' else args[0] + args[1]
            r = int_range(dty)
            lo, hi = st.interval(res)
            if r and r[0] <= lo and hi <= r[1]:
                val = res
            elif r:
                val = st.fresh_atom('sat', max(lo, r[0]), min(hi, r[1]))
        elif all(isinstance(a, Lin) for a in args) and len(args) == 2 and last in ('min', 'max'):
            (l0, h0), (l1, h1) = st.interval(args[0]), st.interval(args[1])
            if last == 'min':
                val = st.fresh_atom('min', min(l0, l1), min(h0, h1))
            else:
                val = st.fresh_atom('max', max(l0, l1), max(h0, h1))
        if val is None and last in ('try_from', 'try_into') and len(args) == 1 and isinstance(args[0], Lin) and ('TryFrom' in name or 'TryInto' in name):
            # `T::try_from(x)`: Ok(x) exactly when x fits T.  The target type is the first type of `<T as TryFrom<U>>`
            m_ = re.match(r'^<([iu](?:8|16|32|64|128|size)) as ', name)
            r_ = int_range(m_.group(1)) if m_ else None
            if r_:
                val = ('tryint', args[0], r_)
        if val is None and last in ('is_ok', 'is_err') and len(args) == 1 and isinstance(args[0], tuple) and args[0][0] == 'tryint':
            _, lin_, r_ = args[0]
            val = ('and', ('cmp', 'Le', Lin(const=r_[0]), lin_), ('cmp', 'Le', lin_, Lin(const=r_[1])))
            if last == 'is_err':
                val = ('not', val)
        if val is None and last in ('unwrap', 'expect') and args and isinstance(args[0], tuple) and args[0][0] == 'tryint':
            # (panics otherwise: on the path that continues the value fits)
            _, lin_, r_ = args[0]
            self.assume(st, ('cmp', 'Ge', lin_, Lin(const=r_[0])), True)
            self.assume(st, ('cmp', 'Le', lin_, Lin(const=r_[1])), True)
            val = lin_
        if val is None and last in ('from', 'into') and len(args) == 1 and isinstance(args[0], Lin) and int_range(dty) and \
                ('convert::From' in name or 'convert::Into' in name):
            # integer From/Into exists only between types where it is lossless; checked like a cast all the same
            self.oblige(st, 'cast', pos, args[0], dty, '`%s::from` conversion' % dty)
            val = args[0]
        if val is None and last == 'get' and 'NonZero' in name and len(args) == 1 and isinstance(args[0], tuple) and args[0][0] == 'opaque' \
                and args[0][1] and args[0][1][0] not in self.borrowed:
            # NonZero::get of the same unmodified field is the same number
            mk = (name, args[0][1], st.version.get(args[0][1][0], 0))
            if mk in st.memo:
                val = st.memo[mk]
            else:
                r = int_range(dty)
                if r:
                    val = st.fresh_atom('NonZero::get', max(r[0], 1) if r[0] >= 0 else r[0], r[1])
                    st.memo[mk] = val
        if val is None and last == 'new' and 'RangeInclusive' in name and len(args) == 2:
            val = ('agg', 'RangeInclusive', args, 'RangeInclusive')
        if val is None and last == 'contains' and len(args) == 2 and isinstance(args[0], tuple) and args[0][0] == 'agg' and len(args[0][2]) == 2 \
                and all(isinstance(x, Lin) for x in args[0][2]) and isinstance(args[1], Lin) and ('ops::Range' in name or 'range::Range' in name):
            lo, hi = args[0][2]
            incl = 'RangeInclusive' in name
            val = ('and', ('cmp', 'Le', lo, args[1]), ('cmp', 'Le' if incl else 'Lt', args[1], hi))
        if val is None:
            r = int_range(dty)
            if r and self.prog is not None:
                sr = return_interval(self.prog, t.get('res') or t.get('callee'))
                if sr is not None:
                    r = (max(r[0], sr[0]), min(r[1], sr[1]))
            if r and last == 'len' and ('[T]' in name or 'slice' in name or 'Vec' in name):
                r = (0, 2**63 - 1)
            if r:
                val = st.fresh_atom(short(name).replace(' ', ''), r[0], r[1])
            else:
                val = ('callres', name, args)
        st.env[k] = val

    # ---- guards
    def assume(self, st, v, truth):
        """assume boolean value v == truth; returns list of guards that could not be represented"""
        if isinstance(v, Lin):
            if v.is_const():
                if bool(v.k) != truth:
                    raise Infeasible()
                return
            st.constrain(v if truth else v, 'Ne' if truth else 'Eq')
            return
        if not isinstance(v, tuple):
            st.ignored.append(('opaque', truth))
            return
        if v[0] == 'not':
            return self.assume(st, v[1], not truth)
        if v[0] == 'cmp':
            op = v[1] if truth else NEG[v[1]]
            if op == 'Ne':
                lo, hi = st.interval(v[2] - v[3])
                if lo > 0 or hi < 0:
                    return
                if lo == hi == 0:
                    raise Infeasible()
                st.constrain(v[2] - v[3], op)
                lo2, hi2 = st.interval(v[2] - v[3])
                if lo2 > 0 or hi2 < 0:
                    st.guards.append((op, v[2], v[3]))
                    return
            ok = st.constrain(v[2] - v[3], op)
            if not ok or op == 'Ne':
                st.ignored.append((op, v[2], v[3]))
            else:
                st.guards.append((op, v[2], v[3]))
            return
        if v[0] == 'and' and truth:
            self.assume(st, v[1], True)
            self.assume(st, v[2], True)
            return
        if v[0] == 'or' and not truth:
            self.assume(st, v[1], False)
            self.assume(st, v[2], False)
            return
        if v[0] == 'callres':
            st.called.append((v[1], truth))
            return
        st.ignored.append((v[0], truth))

    # ---- driver
    def run(self, on_return):
        st = State()
        st.propagate = self.propagate
        self._walk(0, st, [0], on_return)

    def _walk(self, b, st, path, on_return):
        fn = self.fn
        blk = fn.blocks[b]
        for i, s in enumerate(blk['st']):
            if s['k'] == 'assign':
                self.assign(st, (b, i), s['pl'], s['rv'])
        t = blk['term']
        k = t['k']
        pos = (b, len(blk['st']))
        if k == 'return':
            self.paths += 1
            if self.paths > self.max_paths:
                raise Unrecognised('too many paths in %s' % fn.name)
            on_return(list(path), st)
            return
        if k == 'goto' or k == 'drop':
            return self._walk(t['t'], st, path + [t['t']], on_return)
        if k == 'call':
            if t['t'] < 0:
                return
            self.call(st, pos, t)
            return self._walk(t['t'], st, path + [t['t']], on_return)
        if k == 'assert':
            v = self.read(st, t['c'])
            try:
                self.assume(st, v, bool(t['e']))
            except Infeasible:
                return
            return self._walk(t['t'], st, path + [t['t']], on_return)
        if k == 'switch':
            v = self.read(st, t['d'])
            be = fn.bool_edges(b)
            for s in fn.succs()[b]:
                alts = [[]]
                if be is not None and not (isinstance(v, tuple) and v[0] == 'discr'):
                    if s == be[0] and s != be[1]:
                        alts = _split(v, False)
                    elif s == be[1] and s != be[0]:
                        alts = _split(v, True)
                if isinstance(v, tuple) and v[0] == 'discr' and isinstance(v[1], tuple) and v[1][0] == 'tryint':
                    # Ok (0) <=> the value fits; Err <=> below the range or above it
                    _, lin_, r_ = v[1]
                    vals = fn.edge_values(b).get(s, set())
                    fits = [[(('cmp', 'Ge', lin_, Lin(const=r_[0])), True), (('cmp', 'Le', lin_, Lin(const=r_[1])), True)]]
                    misses = [[(('cmp', 'Lt', lin_, Lin(const=r_[0])), True)], [(('cmp', 'Gt', lin_, Lin(const=r_[1])), True)]]
                    alts = fits if vals == {0} else (misses if 0 not in vals else [[]])
                for conj in alts:
                    st2 = st.copy()
                    try:
                        if be is not None and not (isinstance(v, tuple) and v[0] == 'discr'):
                            for vi, ti in conj:
                                self.assume(st2, vi, ti)
                        elif isinstance(v, tuple) and v[0] == 'discr' and isinstance(v[1], tuple) and v[1][0] == 'tryint':
                            for vi, ti in conj:
                                self.assume(st2, vi, ti)
                        else:
                            vals = fn.edge_values(b).get(s, set())
                            st2.discr.append((v, frozenset(vals)))
                    except Infeasible:
                        continue
                    self._walk(s, st2, path + [s], on_return)
            return
        # unreachable / resume: no result
        return


def _promoted_range(o):
    """`(LO..=HI).contains(&x)` with constant bounds: the range is a promoted constant; read its two bounds from the bytes"""
    ty = str(o.get('ty', ''))
    m = re.search(r'Range(Inclusive)?<([iu](?:8|16|32|64|128|size))>$', ty)
    hx = o.get('ref_bytes')
    if not m or not hx:
        return None
    r = int_range(m.group(2))
    n = {'8': 1, '16': 2, '32': 4, '64': 8, '128': 16, 'size': 8}[m.group(2)[1:]]
    raw = bytes.fromhex(hx)
    if len(raw) < 2 * n:
        return None
    signed = m.group(2)[0] == 'i'
    lo = int.from_bytes(raw[0:n], 'little', signed=signed)
    hi = int.from_bytes(raw[n:2 * n], 'little', signed=signed)
    name = 'RangeInclusive' if m.group(1) else 'Range'
    return ('agg', name, [Lin(const=lo), Lin(const=hi)], name)


def _place_ty(fn, pl):
    """Type of a place reached through deref / index projections, from the printed type of its base local
    ('' when it cannot be told): `&[u8]` -> `[u8]` -> `u8`."""
    ty = fn.locals[pl['l']]
    for x in pl['p']:
        k = x['k']
        if k == 'field':
            ty = x.get('ty') or ''
        elif k == 'deref':
            m = re.match(r"^(?:&(?:'\w+ )?(?:mut )?|\*(?:const|mut) )(.*)$", ty)
            ty = m.group(1) if m else ''
        elif k in ('index', 'cindex'):
            m = re.match(r'^\[(.*?)(?:; [^;\]]+)?\]$', ty)
            ty = m.group(1) if m else ''
        else:
            ty = ''
        if not ty:
            return ''
    return ty


def _split(v, truth):
    """Disjunctive normal form of `v == truth` over and/or/not: a list of conjunctions [(value, truth)], the
    alternatives mutually exclusive so that each concrete input follows exactly one."""
    if isinstance(v, tuple) and v[0] == 'not':
        return _split(v[1], not truth)
    if isinstance(v, tuple) and ((v[0] == 'and' and not truth) or (v[0] == 'or' and truth)):
        first = _split(v[1], truth)
        rest = [a + b for a in _split(v[1], not truth) for b in _split(v[2], truth)]
        return first + rest
    if isinstance(v, tuple) and ((v[0] == 'and' and truth) or (v[0] == 'or' and not truth)):
        return [a + b for a in _split(v[1], truth) for b in _split(v[2], truth)]
    return [[(v, truth)]]


_SUMMARY = {}


def return_interval(prog, key, depth=0):
    """Join of the intervals of the integer value a local, loop-free function returns (None if unknown)."""
    fn = prog.fns.get(key)
    if fn is None:
        return None
    ck = (id(prog), key)
    if ck in _SUMMARY:
        return _SUMMARY[ck]
    _SUMMARY[ck] = None
    r = int_range(fn.locals[0])
    if r is None or depth > 3:
        return None
    try:
        pe = PathEval(fn, {}, prog=prog)
    except Unrecognised:
        return None
    out = []

    def on_return(path, st):
        v = st.env.get((0,))
        if isinstance(v, Lin):
            out.append(st.interval(v))
        else:
            out.append(r)
    try:
        pe.run(on_return)
    except Unrecognised:
        return None
    if not out:
        return None
    res = (max(r[0], min(o[0] for o in out)), min(r[1], max(o[1] for o in out)))
    _SUMMARY[ck] = res
    return res
