"""Structural fingerprints of MIR bodies for sibling-agreement rules (Engler-style cross-checking).

The skeleton of a function is its CFG with, per block, the sequence of operations (rvalue kinds, operators,
constants, callee names, projections) with locals renamed in order of first appearance.  Two siblings agree
when their skeletons are equal after a substitution on callee names (e.g. push <-> push_copy)."""
import re


COMMUTATIVE = {'Add', 'Mul', 'BitAnd', 'BitOr', 'BitXor', 'Eq', 'Ne', 'AddWithOverflow', 'MulWithOverflow', 'AddUnchecked', 'MulUnchecked'}
MIRROR = {'Gt': 'Lt', 'Ge': 'Le'}


def skeleton(fn, subst=None, prog=None, canonical=False):
    """canonical=True: single-use-block temporaries are folded into the expressions that use them, operands of
    commutative operators are sorted and `a > b` is written `b < a`, so two bodies that differ only in the
    order of operands of pure operators have the same skeleton."""
    subst = subst or {}
    names = {}
    for i in range(1, fn.argc + 1):
        names[i] = 'p%d' % i
    fold = {}
    if canonical:
        fold = _foldable_temps(fn)

    def loc(l):
        if l not in names:
            names[l] = 'v%d' % len(names)
        return names[l]

    def place(p):
        s = loc(p['l'])
        for x in p['p']:
            k = x['k']
            if k == 'field':
                s += '.%s' % x['n']
            elif k == 'index':
                s += '[%s]' % loc(x['l'])
            elif k == 'downcast':
                s += '@%s' % x.get('n')
            else:
                s += '.<%s>' % k
        return s

    def operand(o):
        if o['k'] in ('copy', 'move'):
            if not o['pl']['p'] and o['pl']['l'] in fold:
                return '(' + rv(fold[o['pl']['l']]) + ')'
            return place(o['pl'])
        if o['k'] == 'const':
            if o.get('fnp'):
                return 'fn:' + sub(o['fnp'])
            return 'c:%s' % (o.get('namedp') or o.get('int') or o.get('bytes') or o.get('ref_bytes') or o.get('ty'))
        return '?'

    def sub(name):
        name = re.sub(r"'\w+", "'_", name)
        for a, b in subst.items():
            name = name.replace(a, b)
        return name

    def rv(r):
        k = r['k']
        if k == 'use':
            return operand(r['o'])
        if k in ('ref', 'rawptr'):
            return '&%s%s' % ('mut ' if r.get('mut') else '', place(r['pl']))
        if k == 'binop':
            a, b, op = operand(r['a']), operand(r['b']), r['op']
            if canonical:
                if op in MIRROR:
                    op, a, b = MIRROR[op], b, a
                if op in COMMUTATIVE and b < a:
                    a, b = b, a
            return '%s(%s,%s)' % (op, a, b)
        if k == 'unop':
            return '%s(%s)' % (r['op'], operand(r['a']))
        if k == 'cast':
            return 'cast[%s](%s)' % (r['ck'], operand(r['o']))
        if k == 'discr':
            return 'discr(%s)' % place(r['pl'])
        if k == 'agg':
            return 'agg[%s %s::%s](%s)' % (r['ak'], sub(r['name'].rsplit('::', 1)[-1] if r['ak'] != 'closure' else 'closure'), r['variant'], ','.join(operand(o) for o in r['ops']))
        return k

    live = fn.live_blocks()
    order = []
    seen = set()
    st = [0]
    while st:
        b = st.pop()
        if b in seen or b not in live:
            continue
        seen.add(b)
        order.append(b)
        for s in reversed(fn.succs()[b]):
            st.append(s)
    bname = {b: 'B%d' % i for i, b in enumerate(order)}
    out = []
    for b in order:
        blk = fn.blocks[b]
        lines = []
        for s in blk['st']:
            if s['k'] == 'assign':
                if not s['pl']['p'] and s['pl']['l'] in fold:
                    continue
                lines.append('%s=%s' % (place(s['pl']), rv(s['rv'])))
        t = blk['term']
        k = t['k']
        if k == 'call':
            callee = t.get('resp') or t.get('calleep') or '?'
            if canonical and callee.startswith('core::panicking::'):
                # the message of a failed assertion quotes the source text of its condition
                lines.append('panic ' + callee.rsplit('::', 1)[-1])
            else:
                lines.append('%s=call %s(%s)->%s' % (place(t['dest']), sub(callee), ','.join(operand(a) for a in t['args']), bname.get(t['t'], 'X')))
        elif k == 'switch':
            lines.append('switch %s [%s] else %s' % (operand(t['d']), ','.join('%s:%s' % (v, bname.get(x, 'X')) for v, x in t['ts']), bname.get(t['o'], 'X')))
        elif k == 'assert':
            lines.append('assert %s==%s ->%s' % (operand(t['c']), t['e'], bname.get(t['t'], 'X')))
        elif k == 'goto':
            lines.append('goto %s' % bname.get(t['t'], 'X'))
        elif k == 'drop':
            lines.append('drop %s ->%s' % (place(t['pl']), bname.get(t['t'], 'X')))
        else:
            lines.append(k)
        out.append('%s: %s' % (bname[b], ' ; '.join(lines)))
    return out


def _foldable_temps(fn):
    """{local: defining rvalue} for compiler temporaries defined once, by a pure rvalue, and used only later in
    the defining block with no store to a non-temporary in between."""
    ndefs = {}
    for b in range(fn.n):
        for s in fn.blocks[b]['st']:
            if s['k'] == 'assign' and not s['pl']['p']:
                ndefs[s['pl']['l']] = ndefs.get(s['pl']['l'], 0) + 1
            elif s['k'] in ('assign', 'setdiscr'):
                ndefs[s['pl']['l']] = ndefs.get(s['pl']['l'], 0) + 2
        t = fn.blocks[b]['term']
        if t['k'] == 'call':
            ndefs[t['dest']['l']] = ndefs.get(t['dest']['l'], 0) + 2
    user = set(fn.debug)

    def uses(node, acc):
        if isinstance(node, dict):
            if 'l' in node and isinstance(node.get('p'), list):
                acc.append(node['l'])
                for x in node['p']:
                    if x.get('k') == 'index':
                        acc.append(x['l'])
                return
            for v in node.values():
                uses(v, acc)
        elif isinstance(node, list):
            for v in node:
                uses(v, acc)
    use_blocks = {}
    for b in range(fn.n):
        acc = []
        for s in fn.blocks[b]['st']:
            if s['k'] == 'assign':
                uses(s['rv'], acc)
                if s['pl']['p']:
                    uses(s['pl'], acc)
            else:
                uses(s, acc)
        uses(fn.blocks[b]['term'], acc)
        for l in acc:
            use_blocks.setdefault(l, set()).add(b)
    out = {}
    for b in range(fn.n):
        st = fn.blocks[b]['st']
        for i, s in enumerate(st):
            if s['k'] != 'assign' or s['pl']['p']:
                continue
            l = s['pl']['l']
            if ndefs.get(l) != 1 or l in user or l == 0 or l <= fn.argc:
                continue
            if s['rv']['k'] not in ('use', 'binop', 'unop', 'cast'):
                continue
            if use_blocks.get(l, set()) - {b}:
                continue
            # no effect on a non-temporary between the definition and the end of the block's statements
            clean = True
            for s2 in st[i + 1:]:
                if s2['k'] != 'assign' or s2['pl']['p'] or ndefs.get(s2['pl']['l']) != 1 or s2['pl']['l'] in user:
                    acc = []
                    uses(s2, acc)
                    # a later effect is harmless only if the temporary is not used at or after it
                    later = []
                    for s3 in st[st.index(s2):]:
                        uses(s3['rv'] if s3['k'] == 'assign' else s3, later)
                    uses(fn.blocks[b]['term'], later)
                    if l in later:
                        clean = False
                    break
            if clean:
                out[l] = s['rv']
    return out


def diff(a, b):
    """first differing line pair, or None"""
    for i in range(max(len(a), len(b))):
        x = a[i] if i < len(a) else '<missing>'
        y = b[i] if i < len(b) else '<missing>'
        if x != y:
            return i, x, y
    return None
