"""Structural fingerprints of MIR bodies for sibling-agreement rules (Engler-style cross-checking).

The skeleton of a function is its CFG with, per block, the sequence of operations (rvalue kinds, operators,
constants, callee names, projections) with locals renamed in order of first appearance.  Two siblings agree
when their skeletons are equal after a substitution on callee names (e.g. push <-> push_copy)."""
import re


def skeleton(fn, subst=None, prog=None):
    subst = subst or {}
    names = {}

    def loc(l):
        if l not in names:
            names[l] = 'v%d' % len(names)
        return names[l]

    def place(p):
        s = loc(p['l'])
        for x in p['p']:
            k = x['k']
            if k == 'field':
                s += '.%s' % x['n']
            elif k == 'index':
                s += '[%s]' % loc(x['l'])
            elif k == 'downcast':
                s += '@%s' % x.get('n')
            else:
                s += '.<%s>' % k
        return s

    def operand(o):
        if o['k'] in ('copy', 'move'):
            return place(o['pl'])
        if o['k'] == 'const':
            if o.get('fnp'):
                return 'fn:' + sub(o['fnp'])
            return 'c:%s' % (o.get('namedp') or o.get('int') or o.get('bytes') or o.get('ref_bytes') or o.get('ty'))
        return '?'

    def sub(name):
        name = re.sub(r"'\w+", "'_", name)
        for a, b in subst.items():
            name = name.replace(a, b)
        return name

    def rv(r):
        k = r['k']
        if k == 'use':
            return operand(r['o'])
        if k in ('ref', 'rawptr'):
            return '&%s%s' % ('mut ' if r.get('mut') else '', place(r['pl']))
        if k == 'binop':
            return '%s(%s,%s)' % (r['op'], operand(r['a']), operand(r['b']))
        if k == 'unop':
            return '%s(%s)' % (r['op'], operand(r['a']))
        if k == 'cast':
            return 'cast[%s](%s)' % (r['ck'], operand(r['o']))
        if k == 'discr':
            return 'discr(%s)' % place(r['pl'])
        if k == 'agg':
            return 'agg[%s %s::%s](%s)' % (r['ak'], sub(r['name'].rsplit('::', 1)[-1] if r['ak'] != 'closure' else 'closure'), r['variant'], ','.join(operand(o) for o in r['ops']))
        return k

    live = fn.live_blocks()
    order = []
    seen = set()
    st = [0]
    while st:
        b = st.pop()
        if b in seen or b not in live:
            continue
        seen.add(b)
        order.append(b)
        for s in reversed(fn.succs()[b]):
            st.append(s)
    bname = {b: 'B%d' % i for i, b in enumerate(order)}
    out = []
    for b in order:
        blk = fn.blocks[b]
        lines = []
        for s in blk['st']:
            if s['k'] == 'assign':
                lines.append('%s=%s' % (place(s['pl']), rv(s['rv'])))
        t = blk['term']
        k = t['k']
        if k == 'call':
            callee = t.get('resp') or t.get('calleep') or '?'
            lines.append('%s=call %s(%s)->%s' % (place(t['dest']), sub(callee), ','.join(operand(a) for a in t['args']), bname.get(t['t'], 'X')))
        elif k == 'switch':
            lines.append('switch %s [%s] else %s' % (operand(t['d']), ','.join('%s:%s' % (v, bname.get(x, 'X')) for v, x in t['ts']), bname.get(t['o'], 'X')))
        elif k == 'assert':
            lines.append('assert %s==%s ->%s' % (operand(t['c']), t['e'], bname.get(t['t'], 'X')))
        elif k == 'goto':
            lines.append('goto %s' % bname.get(t['t'], 'X'))
        elif k == 'drop':
            lines.append('drop %s ->%s' % (place(t['pl']), bname.get(t['t'], 'X')))
        else:
            lines.append(k)
        out.append('%s: %s' % (bname[b], ' ; '.join(lines)))
    return out


def diff(a, b):
    """first differing line pair, or None"""
    for i in range(max(len(a), len(b))):
        x = a[i] if i < len(a) else '<missing>'
        y = b[i] if i < len(b) else '<missing>'
        if x != y:
            return i, x, y
    return None
