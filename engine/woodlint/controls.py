"""Positive controls: for each rule a small committed patch that breaks exactly one instance
while still compiling.  A control is applied to a scratch copy of /repo (outside /repo and
/verif), analysed statically, and must make *that* rule fire naming *that* instance.  The copy
is removed with its facts before returning.  A control whose patch no longer applies to the
current tree is `skipped`; one that applies and does not fire means the machinery is broken."""
import glob
import os
import shutil
import subprocess
import tempfile

from . import extract

CONTROLS = os.path.join(extract.VERIF, 'controls')


def parse_header(path):
    meta = {'rule': None, 'expect': None, 'what': '', 'profile': 'dev'}
    for line in open(path):
        if not line.startswith('#'):
            break
        line = line[1:].strip()
        for k in ('rule', 'expect', 'what', 'profile'):
            if line.startswith(k + ':'):
                meta[k] = line[len(k) + 1:].strip()
    return meta


def scratch_copy(repo):
    d = tempfile.mkdtemp(prefix='woodpile-scratch-')
    dst = os.path.join(d, 'repo')
    shutil.copytree(repo, dst, ignore=shutil.ignore_patterns('target', '.git'))
    return d, dst


def apply_patch(dst, patch):
    r = subprocess.run(['patch', '-p1', '--no-backup-if-mismatch', '-s', '-f', '-i', os.path.abspath(patch)],
                       cwd=dst, capture_output=True, text=True)
    return r.returncode == 0, (r.stdout + r.stderr).strip()


def run_controls(prop, repo='/repo'):
    """Returns (code, info): code 2 when a control applied, compiled and did not fire."""
    from . import core
    pats = sorted(glob.glob(os.path.join(CONTROLS, prop, '*.patch')))
    fired, skipped, broken = [], [], []
    for p in pats:
        meta = parse_header(p)
        name = os.path.basename(p)
        d, dst = scratch_copy(repo)
        try:
            ok, msg = apply_patch(dst, p)
            if not ok:
                skipped.append({'control': name, 'reason': 'patch does not apply to the current tree'})
                continue
            try:
                prog_dir, th, info = extract.extract(dst, meta['profile'], target_dir=os.path.join(extract.CACHE, 'target-scratch-' + meta['profile']))
            except extract.ExtractError as e:
                skipped.append({'control': name, 'reason': 'patched tree does not build: ' + str(e)[-300:]})
                continue
            mod = core.load_rules(prop)
            from .db import Program
            cx = core.run_rules(mod, Program(prog_dir, profile=meta['profile']), meta['profile'], only_rule=meta['rule'])
            fails = [r for r in cx.records if r['verdict'] == 'fail']
            hit = [r for r in fails if not meta['expect'] or meta['expect'] in (r['function'] + ' ' + r['instance'] + ' ' + r['detail'])]
            if hit:
                fired.append({'control': name, 'rule': meta['rule'], 'what': meta['what'],
                              'reported': '%s %s: %s' % (hit[0]['function'], hit[0]['instance'], hit[0]['detail'][:160])})
            else:
                broken.append({'control': name, 'rule': meta['rule'], 'got': [r['detail'][:100] for r in fails][:3]})
            shutil.rmtree(os.path.dirname(prog_dir), ignore_errors=True)
        finally:
            shutil.rmtree(d, ignore_errors=True)
    info = {'controls_fired': len(fired), 'controls_skipped': len(skipped), 'controls': fired, 'controls_skipped_list': skipped}
    if broken:
        info['error'] = 'positive control(s) applied but did not fire: %s' % broken
        return 2, info
    return 0, info
